#!/bin/sh
# Build the framework from files on disk only (offline). Run once after a fresh restore.
set -e
cd "$(dirname "$0")"
export GOFLAGS=-mod=mod GOPROXY=off GOSUMDB=off GOTOOLCHAIN=local
mkdir -p build evidence replays ocaml/gen
(cd tools/go2coq && go build -o ../../build/go2coq .)
./build/go2coq /repo coq/Gen
(cd coq && coq_makefile -f _CoqProject -o Makefile && timeout 3000 make -j16)
cp /repo/go.sum harness/go.sum
(cd harness && go build -tags verif -o ../build/harness .)
(cd ocaml/gen && coqc -Q ../../coq JS ../../coq/Extract.v)
(cd ocaml && ocamlfind ocamlopt -O2 -w -a -I gen gen/model.mli gen/model.ml driver.ml -o ../build/model)
echo setup-ok
