#!/usr/bin/env python3
"""confirm_seed.py <name> <outdir> — re-confirm a seeded change in a fresh scratch worktree of /repo:
build + full test suite pass with the patch, the demonstration fails with it and passes without.
Stores patch.diff, the demo and meta.json under /verif/seeded/<name>/ and removes the scratch worktree."""
import json, os, shutil, subprocess, sys, tempfile
name, outdir = sys.argv[1], sys.argv[2]
env = dict(os.environ, GOFLAGS="-mod=mod", GOPROXY="off", GOSUMDB="off", GOTOOLCHAIN="local")
meta = json.load(open(os.path.join(outdir, "meta.json")))
wt = tempfile.mkdtemp(prefix="seedchk-")
os.rmdir(wt)
def sh(cmd, cwd=wt, ok=None):
    p = subprocess.run(cmd, shell=True, cwd=cwd, env=env, stdout=subprocess.PIPE, stderr=subprocess.STDOUT, text=True)
    return p.returncode, p.stdout
subprocess.run(["git", "-C", "/repo", "worktree", "add", "-q", "--detach", wt, "HEAD"], check=True)
res = {}
try:
    demo_dir = meta.get("demo_dir", "").strip("/") or "."
    demo_cmd = meta["demo_cmd"]
    demos = [f for f in os.listdir(outdir) if f.endswith("_test.go") or f.endswith(".go")]
    def put_demo():
        for f in demos:
            shutil.copy(os.path.join(outdir, f), os.path.join(wt, demo_dir, "zz_" + f if not f.startswith("zz_") else f))
    rc, o = sh("git apply " + os.path.join(os.path.abspath(outdir), "patch.diff"))
    assert rc == 0, o
    rc, o = sh("go build ./... && go test -vet=off -count=1 ./...")
    res["build_and_tests_pass_with_patch"] = rc == 0
    put_demo()
    rc, o = sh(demo_cmd)
    res["demo_fails_with_patch"] = rc != 0
    res["demo_output_with_patch"] = o[-600:]
    sh("git checkout -- . ")
    put_demo()
    rc, o = sh(demo_cmd)
    res["demo_passes_without_patch"] = rc == 0
    if rc != 0:
        res["demo_output_without_patch"] = o[-600:]
finally:
    subprocess.run(["git", "-C", "/repo", "worktree", "remove", "--force", wt])
print(json.dumps(res, indent=1))
ok = res.get("build_and_tests_pass_with_patch") and res.get("demo_fails_with_patch") and res.get("demo_passes_without_patch")
if ok:
    dst = os.path.join("/verif/seeded", name)
    os.makedirs(dst, exist_ok=True)
    shutil.copy(os.path.join(outdir, "patch.diff"), dst)
    for f in demos:
        shutil.copy(os.path.join(outdir, f), dst)
    meta["confirmed"] = {k: v for k, v in res.items() if isinstance(v, bool)}
    meta["confirmed_by"] = "scripts/confirm_seed.py in a fresh scratch worktree of /repo (removed afterwards)"
    json.dump(meta, open(os.path.join(dst, "meta.json"), "w"), indent=1)
    print("KEPT", dst)
else:
    print("REJECTED")
    sys.exit(1)
