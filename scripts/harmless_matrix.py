#!/usr/bin/env python3
"""Apply every behaviour-preserving refactoring of /verif/harmless to /repo in turn, run the quick
check of EVERY property, undo it, and print which checks raise an alarm (none should).
Never leaves /repo modified; refuses to start on a dirty tree; restores the evidence files."""
import json, os, subprocess, sys, glob, shutil
V = "/verif"
def sh(cmd, **kw):
    return subprocess.run(cmd, shell=True, capture_output=True, text=True, **kw)
if sh("git -C /repo status --porcelain").stdout.strip():
    print("dirty /repo"); sys.exit(2)
bak = V + "/build/evidence.bak"
shutil.rmtree(bak, ignore_errors=True)
shutil.copytree(V + "/evidence", bak)
only = [a for a in sys.argv[1:] if not a.startswith("--")]
pids = sorted(json.loads(l)["id"] for l in open(V + "/properties.jsonl"))
rows = []
for d in sorted(glob.glob(V + "/harmless/*/")):
    name = os.path.basename(d.rstrip("/"))
    if only and name not in only:
        continue
    r = sh("git -C /repo apply %spatch.diff" % d)
    if r.returncode:
        rows.append((name, "PATCH DOES NOT APPLY")); print(rows[-1], flush=True); continue
    try:
        alarms = []
        for p in pids:
            c = sh("cd %s && ./check %s quick" % (V, p))
            line = [l for l in c.stdout.split("\n") if l.startswith("VIOLATION")]
            if c.returncode != 0 or line:
                alarms.append(p + (" (no failing input)" if line and "no-failing-input-found" in line[0] else ""))
        rows.append((name, ", ".join(alarms) or "no alarm"))
    finally:
        sh("git -C /repo checkout -- .")
    print(rows[-1], flush=True)
shutil.rmtree(V + "/evidence")
shutil.copytree(bak, V + "/evidence")
json.dump(rows, open(V + "/harmless/matrix.json", "w"), indent=1)
sys.path.insert(0, V + "/lib")
import common
common.build_harness()
