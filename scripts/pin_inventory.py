#!/usr/bin/env python3
"""Re-pin coq/Spec/InventoryExpected.v from coq/Gen/Inventory.v.  Run ONLY after reviewing the
diff: every new row is a new crash site, map iteration, shared variable, goroutine or file
access in /repo (used when a fix: commit deliberately changes the inventory)."""
import re, os
base = os.path.join(os.path.dirname(os.path.dirname(os.path.abspath(__file__))), "coq")
s = open(os.path.join(base, "Gen", "Inventory.v")).read()
full, keys = s.split("Definition inventory_keys")
rows = re.findall(r'^  \((".*")\);?$', full, re.M)
krows = re.findall(r'^  \((".*")\);?$', keys, re.M)
head = open(os.path.join(base, "Spec", "InventoryExpected.v")).read().split("Definition expected_inventory")[0]
out = head + "Definition expected_inventory : list (string * string * string * string) := [\n"
out += ";\n".join("  (" + r + ")" for r in rows) + "\n].\n\n"
out += "(* the same sites as normalised keys (kind, package, what the site is): Props/C01.v proves that the\n   regenerated keys are a sub-multiset of these - sites may move, merge or disappear, none may appear *)\n"
out += "Definition expected_keys : list (string * string * string) := [\n"
out += ";\n".join("  (" + r + ")" for r in krows) + "\n].\n"
open(os.path.join(base, "Spec", "InventoryExpected.v"), "w").write(out)
print(len(rows), "rows pinned")
