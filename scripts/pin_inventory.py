#!/usr/bin/env python3
"""Re-pin coq/Spec/InventoryExpected.v from coq/Gen/Inventory.v.  Run ONLY after reviewing the
diff: every new row is a new crash site, map iteration, shared variable, goroutine or file
access in /repo (used when a fix: commit deliberately changes the inventory)."""
import re, os
base = os.path.join(os.path.dirname(os.path.dirname(os.path.abspath(__file__))), "coq")
s = open(os.path.join(base, "Gen", "Inventory.v")).read()
rows = re.findall(r'^  \((".*")\);?$', s, re.M)
head = open(os.path.join(base, "Spec", "InventoryExpected.v")).read().split("Definition expected_inventory")[0]
out = head + "Definition expected_inventory : list (string * string * string * string) := [\n"
out += ";\n".join("  (" + r + ")" for r in rows) + "\n].\n"
open(os.path.join(base, "Spec", "InventoryExpected.v"), "w").write(out)
print(len(rows), "rows pinned")
