#!/usr/bin/env python3
"""manifest_add.py PID 'level text' 'level note' 'technique' — (re)register a check"""
import json, sys
pid, text, note, tech = sys.argv[1:5]
m = json.load(open('/verif/MANIFEST.json'))
c = {"property_id": pid, "quick_cmd": "./check %s quick" % pid, "thorough_cmd": "./check %s thorough" % pid,
     "evidence_file": "evidence/%s.json" % pid, "replay_cmd_template": "./check %s quick --replay {path}" % pid,
     "engine": "coq-model", "level_claimed": {"category": "proof", "text": text, "design_ref": "DESIGN.md 7/%s" % pid},
     "level_note": note, "technique": tech}
m["checks"] = [x for x in m["checks"] if x["property_id"] != pid] + [c]
m["checks"].sort(key=lambda x: x["property_id"])
for e in m["engines"]:
    e["serves_properties"] = sorted(set(e["serves_properties"]) | {pid})
json.dump(m, open('/verif/MANIFEST.json', 'w'), indent=1)
