#!/usr/bin/env python3
"""Apply every seeded change of /verif/seeded to /repo in turn, run the quick check of its
property (and, with --all, of every property), undo it, and print which checks report it.
Never leaves /repo modified; refuses to start on a dirty tree."""
import json, os, subprocess, sys, glob
V = "/verif"
def sh(cmd, **kw):
    return subprocess.run(cmd, shell=True, capture_output=True, text=True, **kw)
if sh("git -C /repo status --porcelain").stdout.strip():
    print("dirty /repo"); sys.exit(2)
# evidence files must come from the unchanged tree: keep them aside and put them back
import shutil
bak = V + "/build/evidence.bak"
shutil.rmtree(bak, ignore_errors=True)
shutil.copytree(V + "/evidence", bak)
allp = "--all" in sys.argv
only = [a for a in sys.argv[1:] if not a.startswith("--")]
pids = sorted(json.loads(l)["id"] for l in open(V + "/properties.jsonl"))
rows = []
for d in sorted(glob.glob(V + "/seeded/*/")):
    name = os.path.basename(d.rstrip("/"))
    if only and not any(o in name for o in only):
        continue
    meta = json.load(open(d + "meta.json"))
    prop = meta["property"]
    r = sh("git -C /repo apply %spatch.diff" % d)
    if r.returncode:
        rows.append((name, prop, "PATCH DOES NOT APPLY")); continue
    try:
        caught = []
        for p in (pids if allp else [prop]):
            c = sh("cd %s && ./check %s quick" % (V, p))
            line = [l for l in c.stdout.split("\n") if l.startswith("VIOLATION")]
            if c.returncode != 0 and line:
                how = "proof/correspondence only" if "no-failing-input-found" in line[0] else "failing input"
                caught.append("%s (%s)" % (p, how))
        rows.append((name, prop, ", ".join(caught) or "NOT DETECTED"))
    finally:
        sh("git -C /repo checkout -- .")
    print(rows[-1], flush=True)
shutil.rmtree(V + "/evidence")
shutil.copytree(bak, V + "/evidence")
if only and os.path.exists(V + "/seeded/matrix.json"):
    old = [tuple(r) for r in json.load(open(V + "/seeded/matrix.json"))]
    names = set(r[0] for r in rows)
    rows = sorted([r for r in old if r[0] not in names] + rows)
json.dump(rows, open(V + "/seeded/matrix.json", "w"), indent=1)
# leave binaries built from the restored tree behind
sys.path.insert(0, V + "/lib")
import common
common.build_harness()
