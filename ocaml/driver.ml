(* driver.ml — I/O glue around the extracted model (gen/model.ml): decodes cases, calls the
   model's entry points, prints canonical observables.  No logic of its own. *)
open Model

let rec pos_of_int (i : int) : positive =
  if i = 1 then XH
  else if i land 1 = 0 then XO (pos_of_int (i lsr 1))
  else XI (pos_of_int (i lsr 1))

let n_of_int (i : int) : n = if i = 0 then N0 else Npos (pos_of_int i)

let z_of_int (i : int) : z =
  if i = 0 then Z0 else if i > 0 then Zpos (pos_of_int i) else Zneg (pos_of_int (-i))

let rec int_of_pos (p : positive) : int =
  match p with XH -> 1 | XO q -> 2 * int_of_pos q | XI q -> 2 * int_of_pos q + 1

let int_of_n (x : n) : int = match x with N0 -> 0 | Npos p -> int_of_pos p

let int_of_z (x : z) : int =
  match x with Z0 -> 0 | Zpos p -> int_of_pos p | Zneg p -> - (int_of_pos p)

let rec int_of_nat (x : nat) : int = match x with O -> 0 | S y -> 1 + int_of_nat y

let char_of_ascii (a : ascii) : char =
  let Ascii (b0, b1, b2, b3, b4, b5, b6, b7) = a in
  let bit b k = if b then 1 lsl k else 0 in
  Char.chr (bit b0 0 + bit b1 1 + bit b2 2 + bit b3 3 + bit b4 4 + bit b5 5 + bit b6 6 + bit b7 7)

let ocaml_string (s : Model.string) : String.t =
  let b = Buffer.create 16 in
  let rec go s = match s with
    | EmptyString -> ()
    | String (a, r) -> Buffer.add_char b (char_of_ascii a); go r in
  go s; Buffer.contents b

let coq_string (s : String.t) : Model.string =
  let r = ref EmptyString in
  for i = String.length s - 1 downto 0 do
    let c = Char.code s.[i] in
    let bit k = (c lsr k) land 1 = 1 in
    r := String (Ascii (bit 0, bit 1, bit 2, bit 3, bit 4, bit 5, bit 6, bit 7), !r)
  done; !r

let bytes_of_hex (h : String.t) : n list =
  let len = String.length h / 2 in
  let rec go i acc =
    if i < 0 then acc
    else go (i - 1) (n_of_int (int_of_string ("0x" ^ String.sub h (2 * i) 2)) :: acc) in
  go (len - 1) []

let hex_of_bytes (l : n list) : String.t =
  String.concat "" (List.map (fun b -> Printf.sprintf "%02x" (int_of_n b)) l)

let event_name = function
  | KeywordBegin -> "KeywordBegin" | KeywordEnd -> "KeywordEnd"
  | ParameterBegin -> "ParameterBegin" | ParameterEnd -> "ParameterEnd"
  | AnnotationBegin -> "AnnotationBegin" | AnnotationEnd -> "AnnotationEnd"
  | SchemaBegin -> "SchemaBegin" | SchemaEnd -> "SchemaEnd"
  | TextBegin -> "TextBegin" | TextEnd -> "TextEnd"
  | ContextOpen -> "ContextOpen" | ContextClose -> "ContextClose"
  | EnumBegin -> "EnumBegin" | EnumEnd -> "EnumEnd"

let kind_name = function
  | LKeyword -> "K" | LParameter -> "P" | LAnnotation -> "A" | LSchema -> "S" | LJson -> "J"
  | LText -> "T" | LContextOpen -> "O" | LContextClose -> "C" | LEnum -> "E"

let panic_name = function
  | PStepStackEmpty -> "step-stack-empty" | PEventStackEmpty -> "event-stack-empty"
  | PFindsEmpty -> "finds-empty" | PIndexRange -> "index-range" | PFallthrough -> "fallthrough"
  | PNoState -> "no-state" | PLexemeType -> "lexeme-type" | PValueSlice -> "value-slice"

let lexeme_str (l : lexeme) =
  Printf.sprintf "%s:%d:%d" (kind_name l.lk) (int_of_z l.lb) (int_of_z l.le)

let events_str l =
  String.concat "," (List.map (fun (e, p) -> Printf.sprintf "%s@%d" (event_name e) (int_of_z p)) l)

let conf_str (c : conf) =
  Printf.sprintf "%s|%s|%s|%s|%s|%d"
    (ocaml_string (state_name c.c_step))
    (String.concat "," (List.map (fun s -> ocaml_string (state_name s)) c.c_sstack))
    (events_str c.c_finds) (events_str c.c_estack)
    (String.concat "," (List.map (fun l -> Printf.sprintf "%d-%d" (int_of_z l.lb) (int_of_z l.le)) c.c_params))
    (int_of_z c.c_cur)

let serr_str = function
  | EUnexpected (w, e, i, eof) ->
    Printf.sprintf "errU:%d:%d:%s|%s" (int_of_z i) (if eof then 1 else 0) (ocaml_string w) (ocaml_string e)
  | EBasic (m, i) -> Printf.sprintf "errB:%d:%s" (int_of_z i) (ocaml_string m)
  | EOracle (m, i) -> Printf.sprintf "errO:%d:%d" (int_of_z i) (int_of_n m)

let end_str = function
  | EndOk -> "ok"
  | EndErr e -> serr_str e
  | EndPanic p -> "panic:" ^ panic_name p
  | EndFuel -> "fuel"

(* oracle entry: J:pos:L:len | J:pos:E:msgid:idx *)
let parse_oracle (s : String.t) =
  match String.split_on_char ':' s with
  | [k; p; "L"; l] ->
    ((if k = "J" then OJSchema else OEnum), z_of_int (int_of_string p)), OLen (z_of_int (int_of_string l))
  | [k; p; "E"; m; i] ->
    ((if k = "J" then OJSchema else OEnum), z_of_int (int_of_string p)),
    OLenErr (n_of_int (int_of_string m), z_of_int (int_of_string i))
  | _ -> failwith ("bad oracle entry " ^ s)

let cmd_scan () =
  try
    while true do
      let line = input_line stdin in
      match String.split_on_char ' ' line with
      | [] | [""] -> ()
      | id :: rest ->
        let hex, orc = match rest with [] -> "", [] | h :: o -> h, o in
        let data = bytes_of_hex hex in
        let tbl = List.map parse_oracle (List.filter (fun s -> s <> "") orc) in
        let ((ls, e), tr) = scan_case data tbl in
        Printf.printf "%s\t%s\t%s\t%s\n" id
          (String.concat "," (List.map lexeme_str ls)) (end_str e)
          (String.concat ";" (List.map conf_str tr))
    done
  with End_of_file -> ()

let () =
  match Array.to_list Sys.argv with
  | _ :: "scan" :: _ -> cmd_scan ()
  | _ -> prerr_endline "usage: model <scan>"; exit 2
