(* driver.ml — I/O glue around the extracted model (gen/model.ml): decodes cases, calls the
   model's entry points, prints canonical observables.  No logic of its own. *)
open Model

let rec pos_of_int (i : int) : positive =
  if i = 1 then XH
  else if i land 1 = 0 then XO (pos_of_int (i lsr 1))
  else XI (pos_of_int (i lsr 1))

let n_of_int (i : int) : n = if i = 0 then N0 else Npos (pos_of_int i)

let z_of_int (i : int) : z =
  if i = 0 then Z0 else if i > 0 then Zpos (pos_of_int i) else Zneg (pos_of_int (-i))

let rec int_of_pos (p : positive) : int =
  match p with XH -> 1 | XO q -> 2 * int_of_pos q | XI q -> 2 * int_of_pos q + 1

let int_of_n (x : n) : int = match x with N0 -> 0 | Npos p -> int_of_pos p

let int_of_z (x : z) : int =
  match x with Z0 -> 0 | Zpos p -> int_of_pos p | Zneg p -> - (int_of_pos p)

let rec int_of_nat (x : nat) : int = match x with O -> 0 | S y -> 1 + int_of_nat y

let char_of_ascii (a : ascii) : char =
  let Ascii (b0, b1, b2, b3, b4, b5, b6, b7) = a in
  let bit b k = if b then 1 lsl k else 0 in
  Char.chr (bit b0 0 + bit b1 1 + bit b2 2 + bit b3 3 + bit b4 4 + bit b5 5 + bit b6 6 + bit b7 7)

let ocaml_string (s : Model.string) : String.t =
  let b = Buffer.create 16 in
  let rec go s = match s with
    | EmptyString -> ()
    | String (a, r) -> Buffer.add_char b (char_of_ascii a); go r in
  go s; Buffer.contents b

let coq_string (s : String.t) : Model.string =
  let r = ref EmptyString in
  for i = String.length s - 1 downto 0 do
    let c = Char.code s.[i] in
    let bit k = (c lsr k) land 1 = 1 in
    r := String (Ascii (bit 0, bit 1, bit 2, bit 3, bit 4, bit 5, bit 6, bit 7), !r)
  done; !r

let bytes_of_hex (h : String.t) : n list =
  let len = String.length h / 2 in
  let rec go i acc =
    if i < 0 then acc
    else go (i - 1) (n_of_int (int_of_string ("0x" ^ String.sub h (2 * i) 2)) :: acc) in
  go (len - 1) []

let hex_of_bytes (l : n list) : String.t =
  String.concat "" (List.map (fun b -> Printf.sprintf "%02x" (int_of_n b)) l)

let event_name = function
  | KeywordBegin -> "KeywordBegin" | KeywordEnd -> "KeywordEnd"
  | ParameterBegin -> "ParameterBegin" | ParameterEnd -> "ParameterEnd"
  | AnnotationBegin -> "AnnotationBegin" | AnnotationEnd -> "AnnotationEnd"
  | SchemaBegin -> "SchemaBegin" | SchemaEnd -> "SchemaEnd"
  | TextBegin -> "TextBegin" | TextEnd -> "TextEnd"
  | ContextOpen -> "ContextOpen" | ContextClose -> "ContextClose"
  | EnumBegin -> "EnumBegin" | EnumEnd -> "EnumEnd"

let kind_name = function
  | LKeyword -> "K" | LParameter -> "P" | LAnnotation -> "A" | LSchema -> "S" | LJson -> "J"
  | LText -> "T" | LContextOpen -> "O" | LContextClose -> "C" | LEnum -> "E"

let panic_name = function
  | PStepStackEmpty -> "step-stack-empty" | PEventStackEmpty -> "event-stack-empty"
  | PFindsEmpty -> "finds-empty" | PIndexRange -> "index-range" | PFallthrough -> "fallthrough"
  | PNoState -> "no-state" | PLexemeType -> "lexeme-type" | PValueSlice -> "value-slice"

let lexeme_str (l : lexeme) =
  Printf.sprintf "%s:%d:%d" (kind_name l.lk) (int_of_z l.lb) (int_of_z l.le)

let events_str l =
  String.concat "," (List.map (fun (e, p) -> Printf.sprintf "%s@%d" (event_name e) (int_of_z p)) l)

let conf_str (c : conf) =
  Printf.sprintf "%s|%s|%s|%s|%s|%d"
    (ocaml_string (state_name c.c_step))
    (String.concat "," (List.map (fun s -> ocaml_string (state_name s)) c.c_sstack))
    (events_str c.c_finds) (events_str c.c_estack)
    (String.concat "," (List.map (fun l -> Printf.sprintf "%d-%d" (int_of_z l.lb) (int_of_z l.le)) c.c_params))
    (int_of_z c.c_cur)

let serr_str = function
  | EUnexpected (w, e, i, eof) ->
    Printf.sprintf "errU:%d:%d:%s|%s" (int_of_z i) (if eof then 1 else 0) (ocaml_string w) (ocaml_string e)
  | EBasic (m, i) -> Printf.sprintf "errB:%d:%s" (int_of_z i) (ocaml_string m)
  | EOracle (m, i) -> Printf.sprintf "errO:%d:%d" (int_of_z i) (int_of_n m)

let end_str = function
  | EndOk -> "ok"
  | EndErr e -> serr_str e
  | EndPanic p -> "panic:" ^ panic_name p
  | EndFuel -> "fuel"

(* oracle entry: J:pos:L:len | J:pos:E:msgid:idx *)
let parse_oracle (s : String.t) =
  match String.split_on_char ':' s with
  | [k; p; "L"; l] ->
    ((if k = "J" then OJSchema else OEnum), z_of_int (int_of_string p)), OLen (z_of_int (int_of_string l))
  | [k; p; "E"; m; i] ->
    ((if k = "J" then OJSchema else OEnum), z_of_int (int_of_string p)),
    OLenErr (n_of_int (int_of_string m), z_of_int (int_of_string i))
  | _ -> failwith ("bad oracle entry " ^ s)

let cmd_scan () =
  try
    while true do
      let line = input_line stdin in
      match String.split_on_char ' ' line with
      | [] | [""] -> ()
      | id :: rest ->
        let hex, orc = match rest with [] -> "", [] | h :: o -> h, o in
        let data = bytes_of_hex hex in
        let tbl = List.map parse_oracle (List.filter (fun s -> s <> "") orc) in
        let ((ls, e), tr) = scan_case data tbl in
        Printf.printf "%s\t%s\t%s\t%s\n" id
          (String.concat "," (List.map lexeme_str ls)) (end_str e)
          (String.concat ";" (List.map conf_str tr))
    done
  with End_of_file -> ()


(* ------------------------------------------------------------------------------------ *)
(* tree: directive forests, macro expansion, include handling *)

let hex_of_ocaml (s : String.t) : String.t =
  String.concat "" (List.map (fun c -> Printf.sprintf "%02x" (Char.code c)) (List.init (String.length s) (String.get s)))

let hexc (s : Model.string) = hex_of_ocaml (ocaml_string s)

let ocaml_string_of_hex (h : String.t) : String.t =
  String.init (String.length h / 2) (fun i -> Char.chr (int_of_string ("0x" ^ String.sub h (2 * i) 2)))

let key_order = ["Path"; "SchemaNotation"; "Type"; "Name"; "Format"; "QueryExample"; "Version";
                 "Title"; "ProtocolName"; "MethodName"; "TagName"; "OperationId"]

let rloc_str (l : rloc) = Printf.sprintf "%s:%d" (hex_of_bytes l.rl_name) (int_of_z l.rl_line)

let rec rdir_str (d : rdir) : String.t =
  let named = List.map (fun (k, v) -> (ocaml_string k, v)) d.rd_named in
  let nparts = List.filter_map (fun k ->
      match List.assoc_opt k named with
      | Some v when v <> [] -> Some (k ^ "=" ^ hex_of_bytes v)
      | _ -> None) key_order in
  let kname = match List.nth_opt dir_keywords (int_of_n d.rd_kind) with
    | Some s -> ocaml_string s | None -> "?" in
  Printf.sprintf "(%s %s %s:%d-%d {%s} [%s] a=%s b=%s x=%d t=[%s]%s)"
    kname (hex_of_bytes d.rd_keyword) (hex_of_bytes d.rd_file) (int_of_z d.rd_begin) (int_of_z d.rd_end)
    (String.concat "," nparts)
    (String.concat "," (List.map hex_of_bytes d.rd_unnamed))
    (hex_of_bytes d.rd_annot)
    (match d.rd_body with
     | Some ((f, b), e) -> Printf.sprintf "%s:%d-%d" (hex_of_bytes f) (int_of_z b) (int_of_z e)
     | None -> "-")
    (if d.rd_explicit then 1 else 0)
    (String.concat "," (List.map rloc_str d.rd_trace))
    (String.concat "" (List.map (fun c -> " " ^ rdir_str c) d.rd_children))

let jstr s = "\"" ^ s ^ "\""
let jlist l = "[" ^ String.concat "," l ^ "]"

let rerr_json (e : rerr) : String.t =
  Printf.sprintf "{\"fmt\":%s,\"args\":%s,\"suffix\":%s,\"file\":%s,\"index\":%d,\"line\":%d,\"col\":%d,\"quote\":%s,\"trace\":%s}"
    (jstr (hexc e.re_fmt))
    (jlist (List.map (fun a -> jstr (hex_of_bytes a)) e.re_args))
    (jlist (List.map (fun l -> jlist [jstr (hex_of_bytes l.rl_name); string_of_int (int_of_z l.rl_line)]) e.re_suffix))
    (jstr (hex_of_bytes e.re_loc.rl_name)) (int_of_z e.re_loc.rl_index) (int_of_z e.re_loc.rl_line)
    (int_of_z e.re_loc.rl_col)
    (match e.re_loc.rl_quote with Some q -> jstr (hex_of_bytes q) | None -> "null")
    (jlist (List.map (fun l -> jlist [jstr (hex_of_bytes l.rl_name); string_of_int (int_of_z l.rl_line)]) e.re_trace))

let cpanic_name = function
  | CPNilCurrentDirective -> "nil-current-directive"
  | CPEmptyIncludeName -> "empty-include-name"
  | CPLexemeValue -> "lexeme-value"
  | CPScanner p -> "scanner:" ^ panic_name p
  | CPOther w -> "other:" ^ ocaml_string w

let log_json l =
  jlist (List.map (fun (w, p) -> jlist [jstr (ocaml_string w); jstr (hex_of_bytes p)]) l)

let hb = hex_of_bytes
let jopt f = function Some x -> f x | None -> "null"
let jbool b = if b then "true" else "false"
let fmt_name = function FJson -> "json" | FPlain -> "plainString" | FBinary -> "binary"

let inter_json = function
  | IHttp h ->
    Printf.sprintf "{\"k\":\"http\",\"id\":%s,\"method\":%s,\"path\":%s,\"annot\":%s,\"descr\":%s,\"tags\":%s,\"query\":%s,\"request\":%s,\"responses\":%s}"
      (jstr (hb h.hi_id)) (jstr (hb h.hi_method)) (jstr (hb h.hi_path)) (jstr (hb h.hi_annot))
      (jopt (fun d -> jstr (hb d)) h.hi_descr)
      (jlist (List.map (fun t -> jstr (hb t)) h.hi_tags))
      (jopt (fun (f, e) -> jlist [jstr (hb f); jstr (hb e)]) h.hi_query)
      (jopt (fun r -> Printf.sprintf "{\"headers\":%s,\"body\":%s}" (jbool (r.rq_headers <> None))
                (jopt (fun f -> jstr (fmt_name f)) r.rq_body)) h.hi_request)
      (jlist (List.map (fun r -> jlist [jstr (hb r.rs_code); jstr (hb r.rs_annot); jbool (r.rs_headers <> None);
                                         jopt (fun f -> jstr (fmt_name f)) r.rs_body]) h.hi_responses))
  | IRpc r ->
    Printf.sprintf "{\"k\":\"rpc\",\"id\":%s,\"method\":%s,\"path\":%s,\"annot\":%s,\"descr\":%s,\"tags\":%s,\"params\":%s,\"result\":%s}"
      (jstr (hb r.ri_id)) (jstr (hb r.ri_method)) (jstr (hb r.ri_path)) (jstr (hb r.ri_annot))
      (jopt (fun d -> jstr (hb d)) r.ri_descr)
      (jlist (List.map (fun t -> jstr (hb t)) r.ri_tags)) (jbool r.ri_params) (jbool r.ri_result)

let catalog_json (c : catalog) =
  Printf.sprintf "{\"jsight\":%s,\"info\":%s,\"servers\":%s,\"tags\":%s,\"types\":%s,\"inters\":%s}"
    (jstr (hb c.c_jsight))
    (jopt (fun i -> Printf.sprintf "{\"title\":%s,\"version\":%s,\"descr\":%s}" (jstr (hb i.in_title)) (jstr (hb i.in_version))
              (jopt (fun d -> jstr (hb d)) i.in_descr)) c.c_info)
    (jlist (List.map (fun ((n, a), b) -> jlist [jstr (hb n); jstr (hb a); jstr (hb b)]) c.c_servers))
    (jlist (List.map (fun t -> jlist [jstr (hb t.tg_name); jstr (hb t.tg_title); jopt (fun d -> jstr (hb d)) t.tg_descr;
                                        jlist (List.map (fun i -> jstr (hb i)) t.tg_http);
                                        jlist (List.map (fun i -> jstr (hb i)) t.tg_rpc)]) c.c_tags))
    (jlist (List.map (fun ((n, a), b) -> jlist [jstr (hb n); jstr (hb a); jstr (hb b)]) c.c_types))
    (jlist (List.map inter_json c.c_inters))

let oas_json (c : catalog) =
  let o = to_openapi c in
  Printf.sprintf "{\"paths\":%s,\"components\":%s}"
    (jlist (List.map (fun it -> jlist [jstr (hb it.it_path); jlist (List.map (fun p -> jstr (hb p)) it.it_params);
                                        jlist (List.map (fun op -> jlist [jstr (hb op.op_method); jlist (List.map (fun k -> jstr (hb k)) op.op_responses)]) it.it_ops)]) o.oa_paths))
    (jlist (List.map (fun n -> jstr (hb n)) o.oa_components))

let cat_json = function
  | CatOk c -> Printf.sprintf "\"cat\":\"ok\",\"catalog\":%s,\"oas\":%s" (catalog_json c) (oas_json c)
  | CatErr e -> Printf.sprintf "\"cat\":\"err\",\"caterr\":%s" (rerr_json e)
  | CatPanic p -> Printf.sprintf "\"cat\":\"panic\",\"catpanic\":%s" (jstr (cpanic_name p))
  | CatFuel -> "\"cat\":\"fuel\""

let kind_index (name : String.t) : n =
  let rec go i = function
    | [] -> n_of_int 999
    | k :: r -> if ocaml_string k = name then n_of_int i else go (i + 1) r in
  go 0 dir_keywords

let okind_of s = if s = "J" then OJSchema else OEnum

let cmd_tree () =
  try
    while true do
      let line = input_line stdin in
      match List.filter (fun s -> s <> "") (String.split_on_char ' ' line) with
      | [] -> ()
      | id :: toks ->
        let fs = ref [] and root = ref [] and ot = ref [] and et = ref [] and fuel = ref 200000 and banned = ref [] in
        List.iter (fun t ->
            match String.split_on_char ':' t with
            | ["F"; n; c] -> fs := (bytes_of_hex n, FFile (bytes_of_hex c)) :: !fs
            | ["D"; n] -> fs := (bytes_of_hex n, FDir) :: !fs
            | ["R"; n] -> root := bytes_of_hex n
            | ["U"; n] -> fuel := int_of_string n
            | ["B"; n] -> banned := kind_index (ocaml_string_of_hex n) :: !banned
            | ["O"; n; k; p; "L"; l] ->
              ot := (((bytes_of_hex n, okind_of k), z_of_int (int_of_string p)), OLen (z_of_int (int_of_string l))) :: !ot
            | ["O"; n; k; p; "E"; m; i] ->
              ot := (((bytes_of_hex n, okind_of k), z_of_int (int_of_string p)),
                     OLenErr (n_of_int (int_of_string m), z_of_int (int_of_string i))) :: !ot
            | ["X"; n; b; e; m; i] ->
              et := (((bytes_of_hex n, z_of_int (int_of_string b)), z_of_int (int_of_string e)),
                     (n_of_int (int_of_string m), z_of_int (int_of_string i))) :: !et
            | _ -> failwith ("bad token " ^ t)) toks;
        let rec nat_of_int i = if i <= 0 then O else S (nat_of_int (i - 1)) in
        let r = tree_case_b !banned (List.rev !fs) !root (List.rev !ot) (List.rev !et) (nat_of_int !fuel) in
        let out = match r with
          | TScanErr (e, log) -> Printf.sprintf "\"scan\":\"err\",\"err\":%s,\"log\":%s" (rerr_json e) (log_json log)
          | TScanPanic (p, log) -> Printf.sprintf "\"scan\":\"panic\",\"panic\":%s,\"log\":%s" (jstr (cpanic_name p)) (log_json log)
          | TFuel -> "\"scan\":\"fuel\""
          | TScanned (dirs, log, p2) ->
            let p2s = match p2 with
              | T2Ok (roots, ms, ex, enums, cat) ->
                let pl = match placed_case (List.rev !fs) !root (List.rev !ot) (List.rev !et) (nat_of_int !fuel) with
                  | Some (true, true) -> "true" | Some (false, _) -> "false" | Some (true, false) -> "\"macro-not-on-top\"" | None -> "null" in
                Printf.sprintf "\"p2\":\"ok\",\"placed\":%s,%s,\"roots\":%s,\"macros\":%s,\"expanded\":%s,\"enums\":%s" pl (cat_json cat)
                  (jlist (List.map (fun d -> jstr (rdir_str d)) roots))
                  (jlist (List.map (fun m -> jstr (hex_of_bytes m)) ms))
                  (jlist (List.map (fun d -> jstr (rdir_str d)) ex))
                  (jlist (List.map (fun m -> jstr (hex_of_bytes m)) enums))
              | T2Err e -> Printf.sprintf "\"p2\":\"err\",\"errs\":[%s]" (rerr_json e)
              | T2ErrOneOf es -> Printf.sprintf "\"p2\":\"err\",\"errs\":%s" (jlist (List.map rerr_json es))
              | T2Panic p -> Printf.sprintf "\"p2\":\"panic\",\"panic\":%s" (jstr (cpanic_name p))
              | T2Fuel -> "\"p2\":\"fuel\"" in
            Printf.sprintf "\"scan\":\"ok\",\"dirs\":%s,\"log\":%s,%s"
              (jlist (List.map (fun d -> jstr (rdir_str d)) dirs)) (log_json log) p2s in
        Printf.printf "{\"id\":%s,%s}\n" (jstr id) out
    done
  with End_of_file -> ()

(* lazy: "id <kinds> <history>"; kinds: one letter per schema in serialisation order
   (J JSight, F JSight whose lazy compilation fails, R regex, P pseudo); history: accessors
   separated by commas.  Output: id, then per call "cells=result". *)
let cmd_lazy () =
  try
    while true do
      let line = input_line stdin in
      match List.filter (fun s -> s <> "") (String.split_on_char ' ' line) with
      | [id; kinds; hist] ->
        let kinds = if kinds = "." then "" else kinds in
        let ds = List.map (fun c -> match c with
            | 'J' -> { sd_kind = KJsight; sd_fails = false }
            | 'F' -> { sd_kind = KJsight; sd_fails = true }
            | 'R' -> { sd_kind = KRegex; sd_fails = false }
            | _ -> { sd_kind = KPseudo; sd_fails = false }) (List.of_seq (String.to_seq kinds)) in
        let h = List.map (fun a -> match a with
            | "J" -> AJ | "JI" -> AJI | "O" -> AO | "OI" -> AOI | _ -> AT) (String.split_on_char ',' hist) in
        let to_coq l = l and of_coq l = l in
        let rec int_of_nat n = match n with O -> 0 | S m -> 1 + int_of_nat m in
        let tr = of_coq (lazy_case (to_coq ds) (to_coq h)) in
        let cell_char d c = match d.sd_kind, c with
          | KPseudo, _ -> '.'
          | KJsight, LzNone | KRegex, LzNone -> '-'
          | KJsight, LzDone -> 'c'
          | KJsight, LzErr -> 'e'
          | KRegex, _ -> 'x' in
        let show (cells, r) =
          let cs = of_coq cells in
          let b = Buffer.create 16 in
          List.iter2 (fun d c -> Buffer.add_char b (cell_char d c)) ds cs;
          let nats l = String.concat "." (List.map (fun n -> string_of_int (int_of_nat n)) (of_coq l)) in
          let rs = match r with
            | RJson (ind, ex) -> (if ind then "JI" else "J") ^ "[" ^ nats ex ^ "]"
            | RJsonNull (ind, ex, nl) -> "NULL[" ^ nats nl ^ "]"
            | RErrAt i -> "E" ^ string_of_int (int_of_nat i)
            | ROpenApi ind -> (if ind then "OI" else "O")
            | RTitle -> "T" in
          Buffer.contents b ^ "=" ^ rs in
        print_endline (id ^ " " ^ String.concat " " (List.map show tr))
      | _ -> ()
    done
  with End_of_file -> ()

let () =
  match Array.to_list Sys.argv with
  | _ :: "scan" :: _ -> cmd_scan ()
  | _ :: "lazy" :: _ -> cmd_lazy ()
  | _ :: "tree" :: _ -> cmd_tree ()
  | _ -> prerr_endline "usage: model <scan>"; exit 2
