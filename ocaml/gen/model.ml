
(** val negb : bool -> bool **)

let negb = function
| true -> false
| false -> true

type nat =
| O
| S of nat

(** val option_map : ('a1 -> 'a2) -> 'a1 option -> 'a2 option **)

let option_map f = function
| Some a -> Some (f a)
| None -> None

type ('a, 'b) sum =
| Inl of 'a
| Inr of 'b

(** val fst : ('a1 * 'a2) -> 'a1 **)

let fst = function
| (x, _) -> x

(** val snd : ('a1 * 'a2) -> 'a2 **)

let snd = function
| (_, y) -> y

(** val length : 'a1 list -> nat **)

let rec length = function
| [] -> O
| _ :: l' -> S (length l')

(** val app : 'a1 list -> 'a1 list -> 'a1 list **)

let rec app l m =
  match l with
  | [] -> m
  | a :: l1 -> a :: (app l1 m)

type comparison =
| Eq
| Lt
| Gt

(** val compOpp : comparison -> comparison **)

let compOpp = function
| Eq -> Eq
| Lt -> Gt
| Gt -> Lt

module Coq__1 = struct
 (** val add : nat -> nat -> nat **)
 let rec add n0 m =
   match n0 with
   | O -> m
   | S p -> S (add p m)
end
include Coq__1

(** val mul : nat -> nat -> nat **)

let rec mul n0 m =
  match n0 with
  | O -> O
  | S p -> add m (mul p m)

(** val sub : nat -> nat -> nat **)

let rec sub n0 m =
  match n0 with
  | O -> n0
  | S k -> (match m with
            | O -> n0
            | S l -> sub k l)

module Nat =
 struct
  (** val eqb : nat -> nat -> bool **)

  let rec eqb n0 m =
    match n0 with
    | O -> (match m with
            | O -> true
            | S _ -> false)
    | S n' -> (match m with
               | O -> false
               | S m' -> eqb n' m')

  (** val leb : nat -> nat -> bool **)

  let rec leb n0 m =
    match n0 with
    | O -> true
    | S n' -> (match m with
               | O -> false
               | S m' -> leb n' m')

  (** val ltb : nat -> nat -> bool **)

  let ltb n0 m =
    leb (S n0) m

  (** val min : nat -> nat -> nat **)

  let rec min n0 m =
    match n0 with
    | O -> O
    | S n' -> (match m with
               | O -> O
               | S m' -> S (min n' m'))
 end

(** val tl : 'a1 list -> 'a1 list **)

let tl = function
| [] -> []
| _ :: m -> m

(** val nth_error : 'a1 list -> nat -> 'a1 option **)

let rec nth_error l = function
| O -> (match l with
        | [] -> None
        | x :: _ -> Some x)
| S n1 -> (match l with
           | [] -> None
           | _ :: l0 -> nth_error l0 n1)

(** val removelast : 'a1 list -> 'a1 list **)

let rec removelast = function
| [] -> []
| a :: l0 -> (match l0 with
              | [] -> []
              | _ :: _ -> a :: (removelast l0))

(** val rev : 'a1 list -> 'a1 list **)

let rec rev = function
| [] -> []
| x :: l' -> app (rev l') (x :: [])

(** val map : ('a1 -> 'a2) -> 'a1 list -> 'a2 list **)

let rec map f = function
| [] -> []
| a :: t -> (f a) :: (map f t)

(** val flat_map : ('a1 -> 'a2 list) -> 'a1 list -> 'a2 list **)

let rec flat_map f = function
| [] -> []
| x :: t -> app (f x) (flat_map f t)

(** val fold_left : ('a1 -> 'a2 -> 'a1) -> 'a2 list -> 'a1 -> 'a1 **)

let rec fold_left f l a0 =
  match l with
  | [] -> a0
  | b :: t -> fold_left f t (f a0 b)

(** val fold_right : ('a2 -> 'a1 -> 'a1) -> 'a1 -> 'a2 list -> 'a1 **)

let rec fold_right f a0 = function
| [] -> a0
| b :: t -> f b (fold_right f a0 t)

(** val existsb : ('a1 -> bool) -> 'a1 list -> bool **)

let rec existsb f = function
| [] -> false
| a :: l0 -> (||) (f a) (existsb f l0)

(** val forallb : ('a1 -> bool) -> 'a1 list -> bool **)

let rec forallb f = function
| [] -> true
| a :: l0 -> (&&) (f a) (forallb f l0)

(** val filter : ('a1 -> bool) -> 'a1 list -> 'a1 list **)

let rec filter f = function
| [] -> []
| x :: l0 -> if f x then x :: (filter f l0) else filter f l0

(** val find : ('a1 -> bool) -> 'a1 list -> 'a1 option **)

let rec find f = function
| [] -> None
| x :: tl0 -> if f x then Some x else find f tl0

(** val combine : 'a1 list -> 'a2 list -> ('a1 * 'a2) list **)

let rec combine l l' =
  match l with
  | [] -> []
  | x :: tl0 ->
    (match l' with
     | [] -> []
     | y :: tl' -> (x, y) :: (combine tl0 tl'))

(** val firstn : nat -> 'a1 list -> 'a1 list **)

let rec firstn n0 l =
  match n0 with
  | O -> []
  | S n1 -> (match l with
             | [] -> []
             | a :: l0 -> a :: (firstn n1 l0))

(** val skipn : nat -> 'a1 list -> 'a1 list **)

let rec skipn n0 l =
  match n0 with
  | O -> l
  | S n1 -> (match l with
             | [] -> []
             | _ :: l0 -> skipn n1 l0)

(** val seq : nat -> nat -> nat list **)

let rec seq start = function
| O -> []
| S len0 -> start :: (seq (S start) len0)

type positive =
| XI of positive
| XO of positive
| XH

type n =
| N0
| Npos of positive

type z =
| Z0
| Zpos of positive
| Zneg of positive

module Pos =
 struct
  type mask =
  | IsNul
  | IsPos of positive
  | IsNeg
 end

module Coq_Pos =
 struct
  (** val succ : positive -> positive **)

  let rec succ = function
  | XI p -> XO (succ p)
  | XO p -> XI p
  | XH -> XO XH

  (** val add : positive -> positive -> positive **)

  let rec add x y =
    match x with
    | XI p ->
      (match y with
       | XI q -> XO (add_carry p q)
       | XO q -> XI (add p q)
       | XH -> XO (succ p))
    | XO p ->
      (match y with
       | XI q -> XI (add p q)
       | XO q -> XO (add p q)
       | XH -> XI p)
    | XH -> (match y with
             | XI q -> XO (succ q)
             | XO q -> XI q
             | XH -> XO XH)

  (** val add_carry : positive -> positive -> positive **)

  and add_carry x y =
    match x with
    | XI p ->
      (match y with
       | XI q -> XI (add_carry p q)
       | XO q -> XO (add_carry p q)
       | XH -> XI (succ p))
    | XO p ->
      (match y with
       | XI q -> XO (add_carry p q)
       | XO q -> XI (add p q)
       | XH -> XO (succ p))
    | XH ->
      (match y with
       | XI q -> XI (succ q)
       | XO q -> XO (succ q)
       | XH -> XI XH)

  (** val pred_double : positive -> positive **)

  let rec pred_double = function
  | XI p -> XI (XO p)
  | XO p -> XI (pred_double p)
  | XH -> XH

  type mask = Pos.mask =
  | IsNul
  | IsPos of positive
  | IsNeg

  (** val succ_double_mask : mask -> mask **)

  let succ_double_mask = function
  | IsNul -> IsPos XH
  | IsPos p -> IsPos (XI p)
  | IsNeg -> IsNeg

  (** val double_mask : mask -> mask **)

  let double_mask = function
  | IsPos p -> IsPos (XO p)
  | x0 -> x0

  (** val double_pred_mask : positive -> mask **)

  let double_pred_mask = function
  | XI p -> IsPos (XO (XO p))
  | XO p -> IsPos (XO (pred_double p))
  | XH -> IsNul

  (** val sub_mask : positive -> positive -> mask **)

  let rec sub_mask x y =
    match x with
    | XI p ->
      (match y with
       | XI q -> double_mask (sub_mask p q)
       | XO q -> succ_double_mask (sub_mask p q)
       | XH -> IsPos (XO p))
    | XO p ->
      (match y with
       | XI q -> succ_double_mask (sub_mask_carry p q)
       | XO q -> double_mask (sub_mask p q)
       | XH -> IsPos (pred_double p))
    | XH -> (match y with
             | XH -> IsNul
             | _ -> IsNeg)

  (** val sub_mask_carry : positive -> positive -> mask **)

  and sub_mask_carry x y =
    match x with
    | XI p ->
      (match y with
       | XI q -> succ_double_mask (sub_mask_carry p q)
       | XO q -> double_mask (sub_mask p q)
       | XH -> IsPos (pred_double p))
    | XO p ->
      (match y with
       | XI q -> double_mask (sub_mask_carry p q)
       | XO q -> succ_double_mask (sub_mask_carry p q)
       | XH -> double_pred_mask p)
    | XH -> IsNeg

  (** val mul : positive -> positive -> positive **)

  let rec mul x y =
    match x with
    | XI p -> add y (XO (mul p y))
    | XO p -> XO (mul p y)
    | XH -> y

  (** val compare_cont : comparison -> positive -> positive -> comparison **)

  let rec compare_cont r x y =
    match x with
    | XI p ->
      (match y with
       | XI q -> compare_cont r p q
       | XO q -> compare_cont Gt p q
       | XH -> Gt)
    | XO p ->
      (match y with
       | XI q -> compare_cont Lt p q
       | XO q -> compare_cont r p q
       | XH -> Gt)
    | XH -> (match y with
             | XH -> r
             | _ -> Lt)

  (** val compare : positive -> positive -> comparison **)

  let compare =
    compare_cont Eq

  (** val eqb : positive -> positive -> bool **)

  let rec eqb p q =
    match p with
    | XI p0 -> (match q with
                | XI q0 -> eqb p0 q0
                | _ -> false)
    | XO p0 -> (match q with
                | XO q0 -> eqb p0 q0
                | _ -> false)
    | XH -> (match q with
             | XH -> true
             | _ -> false)

  (** val iter_op : ('a1 -> 'a1 -> 'a1) -> positive -> 'a1 -> 'a1 **)

  let rec iter_op op p a =
    match p with
    | XI p0 -> op a (iter_op op p0 (op a a))
    | XO p0 -> iter_op op p0 (op a a)
    | XH -> a

  (** val to_nat : positive -> nat **)

  let to_nat x =
    iter_op Coq__1.add x (S O)

  (** val of_succ_nat : nat -> positive **)

  let rec of_succ_nat = function
  | O -> XH
  | S x -> succ (of_succ_nat x)
 end

module N =
 struct
  (** val add : n -> n -> n **)

  let add n0 m =
    match n0 with
    | N0 -> m
    | Npos p -> (match m with
                 | N0 -> n0
                 | Npos q -> Npos (Coq_Pos.add p q))

  (** val sub : n -> n -> n **)

  let sub n0 m =
    match n0 with
    | N0 -> N0
    | Npos n' ->
      (match m with
       | N0 -> n0
       | Npos m' ->
         (match Coq_Pos.sub_mask n' m' with
          | Coq_Pos.IsPos p -> Npos p
          | _ -> N0))

  (** val mul : n -> n -> n **)

  let mul n0 m =
    match n0 with
    | N0 -> N0
    | Npos p -> (match m with
                 | N0 -> N0
                 | Npos q -> Npos (Coq_Pos.mul p q))

  (** val compare : n -> n -> comparison **)

  let compare n0 m =
    match n0 with
    | N0 -> (match m with
             | N0 -> Eq
             | Npos _ -> Lt)
    | Npos n' -> (match m with
                  | N0 -> Gt
                  | Npos m' -> Coq_Pos.compare n' m')

  (** val eqb : n -> n -> bool **)

  let eqb n0 m =
    match n0 with
    | N0 -> (match m with
             | N0 -> true
             | Npos _ -> false)
    | Npos p -> (match m with
                 | N0 -> false
                 | Npos q -> Coq_Pos.eqb p q)

  (** val leb : n -> n -> bool **)

  let leb x y =
    match compare x y with
    | Gt -> false
    | _ -> true

  (** val ltb : n -> n -> bool **)

  let ltb x y =
    match compare x y with
    | Lt -> true
    | _ -> false

  (** val to_nat : n -> nat **)

  let to_nat = function
  | N0 -> O
  | Npos p -> Coq_Pos.to_nat p

  (** val of_nat : nat -> n **)

  let of_nat = function
  | O -> N0
  | S n' -> Npos (Coq_Pos.of_succ_nat n')
 end

type ascii =
| Ascii of bool * bool * bool * bool * bool * bool * bool * bool

(** val n_of_digits : bool list -> n **)

let rec n_of_digits = function
| [] -> N0
| b :: l' ->
  N.add (if b then Npos XH else N0) (N.mul (Npos (XO XH)) (n_of_digits l'))

(** val n_of_ascii : ascii -> n **)

let n_of_ascii = function
| Ascii (a0, a1, a2, a3, a4, a5, a6, a7) ->
  n_of_digits
    (a0 :: (a1 :: (a2 :: (a3 :: (a4 :: (a5 :: (a6 :: (a7 :: []))))))))

module Z =
 struct
  (** val double : z -> z **)

  let double = function
  | Z0 -> Z0
  | Zpos p -> Zpos (XO p)
  | Zneg p -> Zneg (XO p)

  (** val succ_double : z -> z **)

  let succ_double = function
  | Z0 -> Zpos XH
  | Zpos p -> Zpos (XI p)
  | Zneg p -> Zneg (Coq_Pos.pred_double p)

  (** val pred_double : z -> z **)

  let pred_double = function
  | Z0 -> Zneg XH
  | Zpos p -> Zpos (Coq_Pos.pred_double p)
  | Zneg p -> Zneg (XI p)

  (** val pos_sub : positive -> positive -> z **)

  let rec pos_sub x y =
    match x with
    | XI p ->
      (match y with
       | XI q -> double (pos_sub p q)
       | XO q -> succ_double (pos_sub p q)
       | XH -> Zpos (XO p))
    | XO p ->
      (match y with
       | XI q -> pred_double (pos_sub p q)
       | XO q -> double (pos_sub p q)
       | XH -> Zpos (Coq_Pos.pred_double p))
    | XH ->
      (match y with
       | XI q -> Zneg (XO q)
       | XO q -> Zneg (Coq_Pos.pred_double q)
       | XH -> Z0)

  (** val add : z -> z -> z **)

  let add x y =
    match x with
    | Z0 -> y
    | Zpos x' ->
      (match y with
       | Z0 -> x
       | Zpos y' -> Zpos (Coq_Pos.add x' y')
       | Zneg y' -> pos_sub x' y')
    | Zneg x' ->
      (match y with
       | Z0 -> x
       | Zpos y' -> pos_sub y' x'
       | Zneg y' -> Zneg (Coq_Pos.add x' y'))

  (** val opp : z -> z **)

  let opp = function
  | Z0 -> Z0
  | Zpos x0 -> Zneg x0
  | Zneg x0 -> Zpos x0

  (** val sub : z -> z -> z **)

  let sub m n0 =
    add m (opp n0)

  (** val compare : z -> z -> comparison **)

  let compare x y =
    match x with
    | Z0 -> (match y with
             | Z0 -> Eq
             | Zpos _ -> Lt
             | Zneg _ -> Gt)
    | Zpos x' -> (match y with
                  | Zpos y' -> Coq_Pos.compare x' y'
                  | _ -> Gt)
    | Zneg x' ->
      (match y with
       | Zneg y' -> compOpp (Coq_Pos.compare x' y')
       | _ -> Lt)

  (** val leb : z -> z -> bool **)

  let leb x y =
    match compare x y with
    | Gt -> false
    | _ -> true

  (** val ltb : z -> z -> bool **)

  let ltb x y =
    match compare x y with
    | Lt -> true
    | _ -> false

  (** val eqb : z -> z -> bool **)

  let eqb x y =
    match x with
    | Z0 -> (match y with
             | Z0 -> true
             | _ -> false)
    | Zpos p -> (match y with
                 | Zpos q -> Coq_Pos.eqb p q
                 | _ -> false)
    | Zneg p -> (match y with
                 | Zneg q -> Coq_Pos.eqb p q
                 | _ -> false)

  (** val to_nat : z -> nat **)

  let to_nat = function
  | Zpos p -> Coq_Pos.to_nat p
  | _ -> O

  (** val of_nat : nat -> z **)

  let of_nat = function
  | O -> Z0
  | S n1 -> Zpos (Coq_Pos.of_succ_nat n1)
 end

type string =
| EmptyString
| String of ascii * string

(** val list_ascii_of_string : string -> ascii list **)

let rec list_ascii_of_string = function
| EmptyString -> []
| String (ch, s0) -> ch :: (list_ascii_of_string s0)

type byte = n

type bytes = n list

type event =
| KeywordBegin
| KeywordEnd
| ParameterBegin
| ParameterEnd
| AnnotationBegin
| AnnotationEnd
| SchemaBegin
| SchemaEnd
| TextBegin
| TextEnd
| ContextOpen
| ContextClose
| EnumBegin
| EnumEnd

type lexkind =
| LKeyword
| LParameter
| LAnnotation
| LSchema
| LJson
| LText
| LContextOpen
| LContextClose
| LEnum

type state = n

type ctxq =
| QTypeOrAnyOrEmpty
| QAnyOrEmpty
| QRegex
| QIsDirective

type cond =
| CByte of n
| CNewLine
| CWhitespace
| CPrevByte of z * n
| CCtx of ctxq
| CNot of cond
| CAnd of cond * cond
| COr of cond * cond
| CTrue

type okind =
| OJSchema
| OEnum

type stmt =
| SSetStep of state
| SPush of state
| SPushCur
| SPop
| SFound of event * z
| SAddCur of z
| SIf of cond * stmt * stmt
| SSeq of stmt * stmt
| SSkip
| SOracle of okind
| SRetNil
| SRetErr of string * string
| SRetErrBasic of string
| SRetCall of state
| SRetRedispatch

(** val block : stmt list -> stmt **)

let block l =
  fold_right (fun x x0 -> SSeq (x, x0)) SSkip l

(** val n_eqb_list : n list -> n list -> bool **)

let rec n_eqb_list a b =
  match a with
  | [] -> (match b with
           | [] -> true
           | _ :: _ -> false)
  | x :: a' ->
    (match b with
     | [] -> false
     | y :: b' -> (&&) (N.eqb x y) (n_eqb_list a' b'))

(** val bytes_of_string : string -> bytes **)

let bytes_of_string s =
  map n_of_ascii (list_ascii_of_string s)

(** val beq : bytes -> bytes -> bool **)

let beq =
  n_eqb_list

(** val is_prefix : bytes -> bytes -> bool **)

let rec is_prefix p s =
  match p with
  | [] -> true
  | x :: p' ->
    (match s with
     | [] -> false
     | y :: s' -> (&&) (N.eqb x y) (is_prefix p' s'))

(** val contains : bytes -> bytes -> bool **)

let rec contains w s =
  (||) (is_prefix w s) (match s with
                        | [] -> false
                        | _ :: s' -> contains w s')

(** val is_suffix : bytes -> bytes -> bool **)

let is_suffix w s =
  is_prefix (rev w) (rev s)

(** val is_digit : n -> bool **)

let is_digit c =
  (&&) (N.leb (Npos (XO (XO (XO (XO (XI XH)))))) c)
    (N.leb c (Npos (XI (XO (XO (XI (XI XH)))))))

(** val is_utn_byte : n -> bool **)

let is_utn_byte c =
  (||)
    ((||)
      ((||)
        ((||) (N.eqb c (Npos (XI (XO (XI (XI (XO XH)))))))
          (N.eqb c (Npos (XI (XI (XI (XI (XI (XO XH)))))))))
        ((&&) (N.leb (Npos (XI (XO (XO (XO (XO (XI XH))))))) c)
          (N.leb c (Npos (XO (XI (XO (XI (XI (XI XH))))))))))
      ((&&) (N.leb (Npos (XI (XO (XO (XO (XO (XO XH))))))) c)
        (N.leb c (Npos (XO (XI (XO (XI (XI (XO XH)))))))))) (is_digit c)

(** val is_user_type_name : bytes -> bool **)

let is_user_type_name = function
| [] -> false
| n0 :: rest ->
  (match n0 with
   | N0 -> false
   | Npos p ->
     (match p with
      | XO p0 ->
        (match p0 with
         | XO p1 ->
           (match p1 with
            | XO p2 ->
              (match p2 with
               | XO p3 ->
                 (match p3 with
                  | XO p4 ->
                    (match p4 with
                     | XO p5 ->
                       (match p5 with
                        | XH ->
                          (match rest with
                           | [] -> false
                           | _ :: _ -> forallb is_utn_byte rest)
                        | _ -> false)
                     | _ -> false)
                  | _ -> false)
               | _ -> false)
            | _ -> false)
         | _ -> false)
      | _ -> false))

(** val in_quotes : bytes -> bool **)

let in_quotes = function
| [] -> false
| n0 :: rest ->
  (match n0 with
   | N0 -> false
   | Npos p ->
     (match p with
      | XO p0 ->
        (match p0 with
         | XI p1 ->
           (match p1 with
            | XO p2 ->
              (match p2 with
               | XO p3 ->
                 (match p3 with
                  | XO p4 ->
                    (match p4 with
                     | XH ->
                       (match rev rest with
                        | [] -> false
                        | n1 :: _ ->
                          (match n1 with
                           | N0 -> false
                           | Npos p5 ->
                             (match p5 with
                              | XO p6 ->
                                (match p6 with
                                 | XI p7 ->
                                   (match p7 with
                                    | XO p8 ->
                                      (match p8 with
                                       | XO p9 ->
                                         (match p9 with
                                          | XO p10 ->
                                            (match p10 with
                                             | XH -> true
                                             | _ -> false)
                                          | _ -> false)
                                       | _ -> false)
                                    | _ -> false)
                                 | _ -> false)
                              | _ -> false)))
                     | _ -> false)
                  | _ -> false)
               | _ -> false)
            | _ -> false)
         | _ -> false)
      | _ -> false))

(** val escape_image : n -> n option **)

let escape_image e =
  if (||)
       ((||)
         ((||) (N.eqb e (Npos (XO (XI (XO (XO (XO XH)))))))
           (N.eqb e (Npos (XO (XO (XI (XI (XI (XO XH)))))))))
         (N.eqb e (Npos (XI (XI (XI (XI (XO XH))))))))
       (N.eqb e (Npos (XI (XI (XI (XO (XO XH)))))))
  then Some e
  else if N.eqb e (Npos (XO (XI (XO (XO (XO (XI XH)))))))
       then Some (Npos (XO (XO (XO XH))))
       else if N.eqb e (Npos (XO (XI (XI (XO (XO (XI XH)))))))
            then Some (Npos (XO (XO (XI XH))))
            else if N.eqb e (Npos (XO (XI (XI (XI (XO (XI XH)))))))
                 then Some (Npos (XO (XI (XO XH))))
                 else if N.eqb e (Npos (XO (XI (XO (XO (XI (XI XH)))))))
                      then Some (Npos (XI (XO (XI XH))))
                      else if N.eqb e (Npos (XO (XO (XI (XO (XI (XI XH)))))))
                           then Some (Npos (XI (XO (XO XH))))
                           else None

(** val unquote_body : bytes -> bytes option **)

let rec unquote_body = function
| [] -> Some []
| c :: rest ->
  if N.eqb c (Npos (XO (XO (XI (XI (XI (XO XH)))))))
  then (match rest with
        | [] -> None
        | e :: rest' ->
          (match escape_image e with
           | Some x ->
             (match unquote_body rest' with
              | Some t -> Some (x :: t)
              | None -> None)
           | None -> None))
  else if (||) (N.eqb c (Npos (XO (XI (XO (XO (XO XH)))))))
            (N.ltb c (Npos (XO (XO (XO (XO (XO XH)))))))
       then None
       else (match unquote_body rest with
             | Some t -> Some (c :: t)
             | None -> None)

(** val unquote : bytes -> bytes **)

let unquote b =
  if in_quotes b
  then (match unquote_body (removelast (tl b)) with
        | Some t -> t
        | None -> b)
  else b

(** val trim_square_brackets : bytes -> bytes **)

let trim_square_brackets b = match b with
| [] -> b
| n0 :: rest ->
  (match n0 with
   | N0 -> b
   | Npos p ->
     (match p with
      | XI p0 ->
        (match p0 with
         | XI p1 ->
           (match p1 with
            | XO p2 ->
              (match p2 with
               | XI p3 ->
                 (match p3 with
                  | XI p4 ->
                    (match p4 with
                     | XO p5 ->
                       (match p5 with
                        | XH ->
                          (match rest with
                           | [] -> b
                           | _ :: _ ->
                             (match rev rest with
                              | [] -> b
                              | n1 :: _ ->
                                (match n1 with
                                 | N0 -> b
                                 | Npos p6 ->
                                   (match p6 with
                                    | XI p7 ->
                                      (match p7 with
                                       | XO p8 ->
                                         (match p8 with
                                          | XI p9 ->
                                            (match p9 with
                                             | XI p10 ->
                                               (match p10 with
                                                | XI p11 ->
                                                  (match p11 with
                                                   | XO p12 ->
                                                     (match p12 with
                                                      | XH -> removelast rest
                                                      | _ -> b)
                                                   | _ -> b)
                                                | _ -> b)
                                             | _ -> b)
                                          | _ -> b)
                                       | _ -> b)
                                    | _ -> b))))
                        | _ -> b)
                     | _ -> b)
                  | _ -> b)
               | _ -> b)
            | _ -> b)
         | _ -> b)
      | _ -> b))

(** val to_end_of_line : bytes -> bytes **)

let rec to_end_of_line = function
| [] -> []
| c :: rest ->
  if (||) (N.eqb c (Npos (XO (XI (XO XH)))))
       (N.eqb c (Npos (XI (XO (XI XH)))))
  then []
  else c :: (to_end_of_line rest)

(** val sub0 : bytes -> z -> z -> bytes **)

let sub0 data lo hi =
  firstn (Z.to_nat (Z.sub hi lo)) (skipn (Z.to_nat lo) data)

(** val byte_at : bytes -> z -> n option **)

let byte_at data i =
  if Z.ltb i Z0 then None else nth_error data (Z.to_nat i)

(** val ev_IsBeginning : event -> bool **)

let ev_IsBeginning = function
| KeywordBegin -> true
| ParameterBegin -> true
| AnnotationBegin -> true
| SchemaBegin -> true
| TextBegin -> true
| EnumBegin -> true
| _ -> false

(** val ev_IsEnding : event -> bool **)

let ev_IsEnding = function
| KeywordEnd -> true
| ParameterEnd -> true
| AnnotationEnd -> true
| SchemaEnd -> true
| TextEnd -> true
| EnumEnd -> true
| _ -> false

(** val ev_IsSingle : event -> bool **)

let ev_IsSingle = function
| ContextOpen -> true
| ContextClose -> true
| _ -> false

(** val ev_ToLexemeType : event -> lexkind option **)

let ev_ToLexemeType = function
| KeywordBegin -> Some LKeyword
| KeywordEnd -> Some LKeyword
| ParameterBegin -> Some LParameter
| ParameterEnd -> Some LParameter
| AnnotationBegin -> Some LAnnotation
| AnnotationEnd -> Some LAnnotation
| SchemaBegin -> Some LSchema
| SchemaEnd -> Some LSchema
| TextBegin -> Some LText
| TextEnd -> Some LText
| ContextOpen -> Some LContextOpen
| ContextClose -> Some LContextClose
| _ -> Some LEnum

(** val dir_Jsight : n **)

let dir_Jsight =
  N0

(** val dir_Title : n **)

let dir_Title =
  Npos (XO XH)

(** val dir_Version : n **)

let dir_Version =
  Npos (XI XH)

(** val dir_Server : n **)

let dir_Server =
  Npos (XI (XO XH))

(** val dir_BaseURL : n **)

let dir_BaseURL =
  Npos (XO (XI XH))

(** val dir_URL : n **)

let dir_URL =
  Npos (XI (XI XH))

(** val dir_Get : n **)

let dir_Get =
  Npos (XO (XO (XO XH)))

(** val dir_Post : n **)

let dir_Post =
  Npos (XI (XO (XO XH)))

(** val dir_Put : n **)

let dir_Put =
  Npos (XO (XI (XO XH)))

(** val dir_Patch : n **)

let dir_Patch =
  Npos (XI (XI (XO XH)))

(** val dir_Delete : n **)

let dir_Delete =
  Npos (XO (XO (XI XH)))

(** val dir_Body : n **)

let dir_Body =
  Npos (XI (XO (XI XH)))

(** val dir_Request : n **)

let dir_Request =
  Npos (XO (XI (XI XH)))

(** val dir_HTTPResponseCode : n **)

let dir_HTTPResponseCode =
  Npos (XI (XI (XI XH)))

(** val dir_Query : n **)

let dir_Query =
  Npos (XO (XI (XO (XO XH))))

(** val dir_Type : n **)

let dir_Type =
  Npos (XI (XI (XO (XO XH))))

(** val dir_Enum : n **)

let dir_Enum =
  Npos (XO (XO (XI (XO XH))))

(** val dir_Macro : n **)

let dir_Macro =
  Npos (XI (XO (XI (XO XH))))

(** val dir_Paste : n **)

let dir_Paste =
  Npos (XO (XI (XI (XO XH))))

(** val dir_Protocol : n **)

let dir_Protocol =
  Npos (XO (XO (XO (XI XH))))

(** val dir_Method : n **)

let dir_Method =
  Npos (XI (XO (XO (XI XH))))

(** val dir_TAG : n **)

let dir_TAG =
  Npos (XO (XO (XI (XI XH))))

(** val dir_Tags : n **)

let dir_Tags =
  Npos (XI (XO (XI (XI XH))))

(** val dir_OperationID : n **)

let dir_OperationID =
  Npos (XO (XI (XI (XI XH))))

(** val dir_keywords : string list **)

let dir_keywords =
  (String ((Ascii (false, true, false, true, false, false, true, false)),
    (String ((Ascii (true, true, false, false, true, false, true, false)),
    (String ((Ascii (true, false, false, true, false, false, true, false)),
    (String ((Ascii (true, true, true, false, false, false, true, false)),
    (String ((Ascii (false, false, false, true, false, false, true, false)),
    (String ((Ascii (false, false, true, false, true, false, true, false)),
    EmptyString)))))))))))) :: ((String ((Ascii (true, false, false, true,
    false, false, true, false)), (String ((Ascii (false, true, true, true,
    false, false, true, false)), (String ((Ascii (false, true, true, false,
    false, false, true, false)), (String ((Ascii (true, true, true, true,
    false, false, true, false)), EmptyString)))))))) :: ((String ((Ascii
    (false, false, true, false, true, false, true, false)), (String ((Ascii
    (true, false, false, true, false, true, true, false)), (String ((Ascii
    (false, false, true, false, true, true, true, false)), (String ((Ascii
    (false, false, true, true, false, true, true, false)), (String ((Ascii
    (true, false, true, false, false, true, true, false)),
    EmptyString)))))))))) :: ((String ((Ascii (false, true, true, false,
    true, false, true, false)), (String ((Ascii (true, false, true, false,
    false, true, true, false)), (String ((Ascii (false, true, false, false,
    true, true, true, false)), (String ((Ascii (true, true, false, false,
    true, true, true, false)), (String ((Ascii (true, false, false, true,
    false, true, true, false)), (String ((Ascii (true, true, true, true,
    false, true, true, false)), (String ((Ascii (false, true, true, true,
    false, true, true, false)), EmptyString)))))))))))))) :: ((String ((Ascii
    (false, false, true, false, false, false, true, false)), (String ((Ascii
    (true, false, true, false, false, true, true, false)), (String ((Ascii
    (true, true, false, false, true, true, true, false)), (String ((Ascii
    (true, true, false, false, false, true, true, false)), (String ((Ascii
    (false, true, false, false, true, true, true, false)), (String ((Ascii
    (true, false, false, true, false, true, true, false)), (String ((Ascii
    (false, false, false, false, true, true, true, false)), (String ((Ascii
    (false, false, true, false, true, true, true, false)), (String ((Ascii
    (true, false, false, true, false, true, true, false)), (String ((Ascii
    (true, true, true, true, false, true, true, false)), (String ((Ascii
    (false, true, true, true, false, true, true, false)),
    EmptyString)))))))))))))))))))))) :: ((String ((Ascii (true, true, false,
    false, true, false, true, false)), (String ((Ascii (true, false, true,
    false, false, false, true, false)), (String ((Ascii (false, true, false,
    false, true, false, true, false)), (String ((Ascii (false, true, true,
    false, true, false, true, false)), (String ((Ascii (true, false, true,
    false, false, false, true, false)), (String ((Ascii (false, true, false,
    false, true, false, true, false)), EmptyString)))))))))))) :: ((String
    ((Ascii (false, true, false, false, false, false, true, false)), (String
    ((Ascii (true, false, false, false, false, true, true, false)), (String
    ((Ascii (true, true, false, false, true, true, true, false)), (String
    ((Ascii (true, false, true, false, false, true, true, false)), (String
    ((Ascii (true, false, true, false, true, false, true, false)), (String
    ((Ascii (false, true, false, false, true, true, true, false)), (String
    ((Ascii (false, false, true, true, false, true, true, false)),
    EmptyString)))))))))))))) :: ((String ((Ascii (true, false, true, false,
    true, false, true, false)), (String ((Ascii (false, true, false, false,
    true, false, true, false)), (String ((Ascii (false, false, true, true,
    false, false, true, false)), EmptyString)))))) :: ((String ((Ascii (true,
    true, true, false, false, false, true, false)), (String ((Ascii (true,
    false, true, false, false, false, true, false)), (String ((Ascii (false,
    false, true, false, true, false, true, false)),
    EmptyString)))))) :: ((String ((Ascii (false, false, false, false, true,
    false, true, false)), (String ((Ascii (true, true, true, true, false,
    false, true, false)), (String ((Ascii (true, true, false, false, true,
    false, true, false)), (String ((Ascii (false, false, true, false, true,
    false, true, false)), EmptyString)))))))) :: ((String ((Ascii (false,
    false, false, false, true, false, true, false)), (String ((Ascii (true,
    false, true, false, true, false, true, false)), (String ((Ascii (false,
    false, true, false, true, false, true, false)),
    EmptyString)))))) :: ((String ((Ascii (false, false, false, false, true,
    false, true, false)), (String ((Ascii (true, false, false, false, false,
    false, true, false)), (String ((Ascii (false, false, true, false, true,
    false, true, false)), (String ((Ascii (true, true, false, false, false,
    false, true, false)), (String ((Ascii (false, false, false, true, false,
    false, true, false)), EmptyString)))))))))) :: ((String ((Ascii (false,
    false, true, false, false, false, true, false)), (String ((Ascii (true,
    false, true, false, false, false, true, false)), (String ((Ascii (false,
    false, true, true, false, false, true, false)), (String ((Ascii (true,
    false, true, false, false, false, true, false)), (String ((Ascii (false,
    false, true, false, true, false, true, false)), (String ((Ascii (true,
    false, true, false, false, false, true, false)),
    EmptyString)))))))))))) :: ((String ((Ascii (false, true, false, false,
    false, false, true, false)), (String ((Ascii (true, true, true, true,
    false, true, true, false)), (String ((Ascii (false, false, true, false,
    false, true, true, false)), (String ((Ascii (true, false, false, true,
    true, true, true, false)), EmptyString)))))))) :: ((String ((Ascii
    (false, true, false, false, true, false, true, false)), (String ((Ascii
    (true, false, true, false, false, true, true, false)), (String ((Ascii
    (true, false, false, false, true, true, true, false)), (String ((Ascii
    (true, false, true, false, true, true, true, false)), (String ((Ascii
    (true, false, true, false, false, true, true, false)), (String ((Ascii
    (true, true, false, false, true, true, true, false)), (String ((Ascii
    (false, false, true, false, true, true, true, false)),
    EmptyString)))))))))))))) :: ((String ((Ascii (false, false, false, true,
    false, false, true, false)), (String ((Ascii (false, false, true, false,
    true, false, true, false)), (String ((Ascii (false, false, true, false,
    true, false, true, false)), (String ((Ascii (false, false, false, false,
    true, false, true, false)), (String ((Ascii (true, false, true, true,
    false, true, false, false)), (String ((Ascii (false, true, false, false,
    true, true, true, false)), (String ((Ascii (true, false, true, false,
    false, true, true, false)), (String ((Ascii (true, true, false, false,
    true, true, true, false)), (String ((Ascii (false, false, false, false,
    true, true, true, false)), (String ((Ascii (true, true, true, true,
    false, true, true, false)), (String ((Ascii (false, true, true, true,
    false, true, true, false)), (String ((Ascii (true, true, false, false,
    true, true, true, false)), (String ((Ascii (true, false, true, false,
    false, true, true, false)), (String ((Ascii (true, false, true, true,
    false, true, false, false)), (String ((Ascii (true, true, false, false,
    false, true, true, false)), (String ((Ascii (true, true, true, true,
    false, true, true, false)), (String ((Ascii (false, false, true, false,
    false, true, true, false)), (String ((Ascii (true, false, true, false,
    false, true, true, false)),
    EmptyString)))))))))))))))))))))))))))))))))))) :: ((String ((Ascii
    (false, false, false, false, true, false, true, false)), (String ((Ascii
    (true, false, false, false, false, true, true, false)), (String ((Ascii
    (false, false, true, false, true, true, true, false)), (String ((Ascii
    (false, false, false, true, false, true, true, false)),
    EmptyString)))))))) :: ((String ((Ascii (false, false, false, true,
    false, false, true, false)), (String ((Ascii (true, false, true, false,
    false, true, true, false)), (String ((Ascii (true, false, false, false,
    false, true, true, false)), (String ((Ascii (false, false, true, false,
    false, true, true, false)), (String ((Ascii (true, false, true, false,
    false, true, true, false)), (String ((Ascii (false, true, false, false,
    true, true, true, false)), (String ((Ascii (true, true, false, false,
    true, true, true, false)), EmptyString)))))))))))))) :: ((String ((Ascii
    (true, false, false, false, true, false, true, false)), (String ((Ascii
    (true, false, true, false, true, true, true, false)), (String ((Ascii
    (true, false, true, false, false, true, true, false)), (String ((Ascii
    (false, true, false, false, true, true, true, false)), (String ((Ascii
    (true, false, false, true, true, true, true, false)),
    EmptyString)))))))))) :: ((String ((Ascii (false, false, true, false,
    true, false, true, false)), (String ((Ascii (true, false, false, true,
    true, false, true, false)), (String ((Ascii (false, false, false, false,
    true, false, true, false)), (String ((Ascii (true, false, true, false,
    false, false, true, false)), EmptyString)))))))) :: ((String ((Ascii
    (true, false, true, false, false, false, true, false)), (String ((Ascii
    (false, true, true, true, false, false, true, false)), (String ((Ascii
    (true, false, true, false, true, false, true, false)), (String ((Ascii
    (true, false, true, true, false, false, true, false)),
    EmptyString)))))))) :: ((String ((Ascii (true, false, true, true, false,
    false, true, false)), (String ((Ascii (true, false, false, false, false,
    false, true, false)), (String ((Ascii (true, true, false, false, false,
    false, true, false)), (String ((Ascii (false, true, false, false, true,
    false, true, false)), (String ((Ascii (true, true, true, true, false,
    false, true, false)), EmptyString)))))))))) :: ((String ((Ascii (false,
    false, false, false, true, false, true, false)), (String ((Ascii (true,
    false, false, false, false, false, true, false)), (String ((Ascii (true,
    true, false, false, true, false, true, false)), (String ((Ascii (false,
    false, true, false, true, false, true, false)), (String ((Ascii (true,
    false, true, false, false, false, true, false)),
    EmptyString)))))))))) :: ((String ((Ascii (true, false, false, true,
    false, false, true, false)), (String ((Ascii (false, true, true, true,
    false, false, true, false)), (String ((Ascii (true, true, false, false,
    false, false, true, false)), (String ((Ascii (false, false, true, true,
    false, false, true, false)), (String ((Ascii (true, false, true, false,
    true, false, true, false)), (String ((Ascii (false, false, true, false,
    false, false, true, false)), (String ((Ascii (true, false, true, false,
    false, false, true, false)), EmptyString)))))))))))))) :: ((String
    ((Ascii (false, false, false, false, true, false, true, false)), (String
    ((Ascii (false, true, false, false, true, true, true, false)), (String
    ((Ascii (true, true, true, true, false, true, true, false)), (String
    ((Ascii (false, false, true, false, true, true, true, false)), (String
    ((Ascii (true, true, true, true, false, true, true, false)), (String
    ((Ascii (true, true, false, false, false, true, true, false)), (String
    ((Ascii (true, true, true, true, false, true, true, false)), (String
    ((Ascii (false, false, true, true, false, true, true, false)),
    EmptyString)))))))))))))))) :: ((String ((Ascii (true, false, true, true,
    false, false, true, false)), (String ((Ascii (true, false, true, false,
    false, true, true, false)), (String ((Ascii (false, false, true, false,
    true, true, true, false)), (String ((Ascii (false, false, false, true,
    false, true, true, false)), (String ((Ascii (true, true, true, true,
    false, true, true, false)), (String ((Ascii (false, false, true, false,
    false, true, true, false)), EmptyString)))))))))))) :: ((String ((Ascii
    (false, false, false, false, true, false, true, false)), (String ((Ascii
    (true, false, false, false, false, true, true, false)), (String ((Ascii
    (false, true, false, false, true, true, true, false)), (String ((Ascii
    (true, false, false, false, false, true, true, false)), (String ((Ascii
    (true, false, true, true, false, true, true, false)), (String ((Ascii
    (true, true, false, false, true, true, true, false)),
    EmptyString)))))))))))) :: ((String ((Ascii (false, true, false, false,
    true, false, true, false)), (String ((Ascii (true, false, true, false,
    false, true, true, false)), (String ((Ascii (true, true, false, false,
    true, true, true, false)), (String ((Ascii (true, false, true, false,
    true, true, true, false)), (String ((Ascii (false, false, true, true,
    false, true, true, false)), (String ((Ascii (false, false, true, false,
    true, true, true, false)), EmptyString)))))))))))) :: ((String ((Ascii
    (false, false, true, false, true, false, true, false)), (String ((Ascii
    (true, false, false, false, false, false, true, false)), (String ((Ascii
    (true, true, true, false, false, false, true, false)),
    EmptyString)))))) :: ((String ((Ascii (false, false, true, false, true,
    false, true, false)), (String ((Ascii (true, false, false, false, false,
    true, true, false)), (String ((Ascii (true, true, true, false, false,
    true, true, false)), (String ((Ascii (true, true, false, false, true,
    true, true, false)), EmptyString)))))))) :: ((String ((Ascii (true, true,
    true, true, false, false, true, false)), (String ((Ascii (false, false,
    false, false, true, true, true, false)), (String ((Ascii (true, false,
    true, false, false, true, true, false)), (String ((Ascii (false, true,
    false, false, true, true, true, false)), (String ((Ascii (true, false,
    false, false, false, true, true, false)), (String ((Ascii (false, false,
    true, false, true, true, true, false)), (String ((Ascii (true, false,
    false, true, false, true, true, false)), (String ((Ascii (true, true,
    true, true, false, true, true, false)), (String ((Ascii (false, true,
    true, true, false, true, true, false)), (String ((Ascii (true, false,
    false, true, false, false, true, false)), (String ((Ascii (false, false,
    true, false, false, true, true, false)),
    EmptyString)))))))))))))))))))))) :: []))))))))))))))))))))))))))))))

(** val dir_root_allowed : n list **)

let dir_root_allowed =
  N0 :: ((Npos XH) :: ((Npos (XI (XO XH))) :: ((Npos (XI (XI XH))) :: ((Npos
    (XO (XO (XO XH)))) :: ((Npos (XI (XO (XO XH)))) :: ((Npos (XO (XI (XO
    XH)))) :: ((Npos (XI (XI (XO XH)))) :: ((Npos (XO (XO (XI
    XH)))) :: ((Npos (XI (XI (XO (XO XH))))) :: ((Npos (XO (XO (XI (XO
    XH))))) :: ((Npos (XI (XO (XI (XO XH))))) :: ((Npos (XO (XI (XI (XO
    XH))))) :: ((Npos (XO (XO (XI (XI XH))))) :: [])))))))))))))

(** val dir_http_methods : n list **)

let dir_http_methods =
  (Npos (XO (XO (XO XH)))) :: ((Npos (XI (XO (XO XH)))) :: ((Npos (XO (XI (XO
    XH)))) :: ((Npos (XI (XI (XO XH)))) :: ((Npos (XO (XO (XI XH)))) :: []))))

(** val dir_context_table : (n * n list) list **)

let dir_context_table =
  ((Npos (XI (XI XH))), ((Npos (XO (XO (XO XH)))) :: ((Npos (XI (XO (XO
    XH)))) :: ((Npos (XO (XI (XO XH)))) :: ((Npos (XI (XI (XO
    XH)))) :: ((Npos (XO (XO (XI XH)))) :: ((Npos (XO (XO (XO (XO
    XH))))) :: ((Npos (XO (XI (XI (XO XH))))) :: ((Npos (XO (XO (XO (XI
    XH))))) :: ((Npos (XI (XO (XO (XI XH))))) :: ((Npos (XI (XO (XI (XI
    XH))))) :: []))))))))))) :: (((Npos (XO (XO (XO XH)))), ((Npos (XO (XO
    XH))) :: ((Npos (XO (XI (XI XH)))) :: ((Npos (XI (XI (XI XH)))) :: ((Npos
    (XO (XO (XO (XO XH))))) :: ((Npos (XO (XI (XO (XO XH))))) :: ((Npos (XO
    (XI (XI (XO XH))))) :: ((Npos (XI (XO (XI (XI XH))))) :: ((Npos (XO (XI
    (XI (XI XH))))) :: []))))))))) :: (((Npos (XI (XO (XO XH)))), ((Npos (XO
    (XO XH))) :: ((Npos (XO (XI (XI XH)))) :: ((Npos (XI (XI (XI
    XH)))) :: ((Npos (XO (XO (XO (XO XH))))) :: ((Npos (XO (XI (XO (XO
    XH))))) :: ((Npos (XO (XI (XI (XO XH))))) :: ((Npos (XI (XO (XI (XI
    XH))))) :: ((Npos (XO (XI (XI (XI XH))))) :: []))))))))) :: (((Npos (XO
    (XI (XO XH)))), ((Npos (XO (XO XH))) :: ((Npos (XO (XI (XI
    XH)))) :: ((Npos (XI (XI (XI XH)))) :: ((Npos (XO (XO (XO (XO
    XH))))) :: ((Npos (XO (XI (XO (XO XH))))) :: ((Npos (XO (XI (XI (XO
    XH))))) :: ((Npos (XI (XO (XI (XI XH))))) :: ((Npos (XO (XI (XI (XI
    XH))))) :: []))))))))) :: (((Npos (XI (XI (XO XH)))), ((Npos (XO (XO
    XH))) :: ((Npos (XO (XI (XI XH)))) :: ((Npos (XI (XI (XI XH)))) :: ((Npos
    (XO (XO (XO (XO XH))))) :: ((Npos (XO (XI (XO (XO XH))))) :: ((Npos (XO
    (XI (XI (XO XH))))) :: ((Npos (XI (XO (XI (XI XH))))) :: ((Npos (XO (XI
    (XI (XI XH))))) :: []))))))))) :: (((Npos (XO (XO (XI XH)))), ((Npos (XO
    (XO XH))) :: ((Npos (XO (XI (XI XH)))) :: ((Npos (XI (XI (XI
    XH)))) :: ((Npos (XO (XO (XO (XO XH))))) :: ((Npos (XO (XI (XO (XO
    XH))))) :: ((Npos (XO (XI (XI (XO XH))))) :: ((Npos (XI (XO (XI (XI
    XH))))) :: ((Npos (XO (XI (XI (XI XH))))) :: []))))))))) :: (((Npos (XI
    (XI (XI XH)))), ((Npos (XI (XO (XI XH)))) :: ((Npos (XI (XO (XO (XO
    XH))))) :: ((Npos (XO (XI (XI (XO XH))))) :: [])))) :: (((Npos (XO (XI
    (XI XH)))), ((Npos (XI (XO (XI XH)))) :: ((Npos (XI (XO (XO (XO
    XH))))) :: ((Npos (XO (XI (XI (XO XH))))) :: [])))) :: (((Npos XH),
    ((Npos (XO XH)) :: ((Npos (XI XH)) :: ((Npos (XO (XO XH))) :: ((Npos (XO
    (XI (XI (XO XH))))) :: []))))) :: (((Npos (XI (XO XH))), ((Npos (XO (XI
    XH))) :: ((Npos (XO (XI (XI (XO XH))))) :: []))) :: (((Npos (XI (XO (XO
    (XI XH))))), ((Npos (XO (XO XH))) :: ((Npos (XO (XI (XO (XI
    XH))))) :: ((Npos (XI (XI (XO (XI XH))))) :: ((Npos (XI (XO (XI (XI
    XH))))) :: []))))) :: (((Npos (XO (XO (XI (XI XH))))), ((Npos (XO (XO
    XH))) :: [])) :: (((Npos (XI (XO (XI (XO XH))))), ((Npos XH) :: ((Npos
    (XO XH)) :: ((Npos (XI XH)) :: ((Npos (XO (XO XH))) :: ((Npos (XI (XO
    XH))) :: ((Npos (XO (XI XH))) :: ((Npos (XI (XI XH))) :: ((Npos (XO (XO
    (XO XH)))) :: ((Npos (XI (XO (XO XH)))) :: ((Npos (XO (XI (XO
    XH)))) :: ((Npos (XI (XI (XO XH)))) :: ((Npos (XO (XO (XI
    XH)))) :: ((Npos (XI (XO (XI XH)))) :: ((Npos (XO (XI (XI
    XH)))) :: ((Npos (XI (XI (XI XH)))) :: ((Npos (XO (XO (XO (XO
    XH))))) :: ((Npos (XI (XO (XO (XO XH))))) :: ((Npos (XO (XI (XO (XO
    XH))))) :: ((Npos (XI (XI (XO (XO XH))))) :: ((Npos (XO (XO (XI (XO
    XH))))) :: ((Npos (XO (XI (XI (XO
    XH))))) :: [])))))))))))))))))))))) :: []))))))))))))

type lexeme = { lk : lexkind; lb : z; le : z }

type conf = { c_step : state; c_sstack : state list;
              c_finds : (event * z) list; c_estack : (event * z) list;
              c_params : lexeme list; c_cur : z }

type serr =
| EUnexpected of string * string * z * bool
| EBasic of string * z
| EOracle of n * z

type panic =
| PStepStackEmpty
| PEventStackEmpty
| PFindsEmpty
| PIndexRange
| PFallthrough
| PNoState
| PLexemeType
| PValueSlice

type 'a res =
| ROk of 'a
| RErr of serr
| RPanic of panic
| RFuel

type olen_res =
| OLen of z
| OLenErr of n * z

type retk =
| KNil
| KCall of state
| KRedispatch

type flow =
| FFall of conf
| FRet of retk * conf
| FErr of serr
| FPanic of panic

(** val set_step : conf -> state -> conf **)

let set_step cf st =
  { c_step = st; c_sstack = cf.c_sstack; c_finds = cf.c_finds; c_estack =
    cf.c_estack; c_params = cf.c_params; c_cur = cf.c_cur }

(** val set_sstack : conf -> state list -> conf **)

let set_sstack cf ss =
  { c_step = cf.c_step; c_sstack = ss; c_finds = cf.c_finds; c_estack =
    cf.c_estack; c_params = cf.c_params; c_cur = cf.c_cur }

(** val set_finds : conf -> (event * z) list -> conf **)

let set_finds cf fs =
  { c_step = cf.c_step; c_sstack = cf.c_sstack; c_finds = fs; c_estack =
    cf.c_estack; c_params = cf.c_params; c_cur = cf.c_cur }

(** val set_estack : conf -> (event * z) list -> conf **)

let set_estack cf es =
  { c_step = cf.c_step; c_sstack = cf.c_sstack; c_finds = cf.c_finds;
    c_estack = es; c_params = cf.c_params; c_cur = cf.c_cur }

(** val set_params : conf -> lexeme list -> conf **)

let set_params cf ps =
  { c_step = cf.c_step; c_sstack = cf.c_sstack; c_finds = cf.c_finds;
    c_estack = cf.c_estack; c_params = ps; c_cur = cf.c_cur }

(** val set_cur : conf -> z -> conf **)

let set_cur cf i =
  { c_step = cf.c_step; c_sstack = cf.c_sstack; c_finds = cf.c_finds;
    c_estack = cf.c_estack; c_params = cf.c_params; c_cur = i }

(** val init_conf : state -> conf **)

let init_conf st =
  { c_step = st; c_sstack = []; c_finds = []; c_estack = []; c_params = [];
    c_cur = Z0 }

(** val lexeme_value : bytes -> lexeme -> bytes option **)

let lexeme_value data l =
  if (||) ((||) (Z.ltb l.lb Z0) (Z.ltb (Z.add l.le (Zpos XH)) l.lb))
       (Z.ltb (Z.of_nat (length data)) (Z.add l.le (Zpos XH)))
  then None
  else Some (sub0 data l.lb (Z.add l.le (Zpos XH)))

(** val kw_any : bytes **)

let kw_any =
  bytes_of_string (String ((Ascii (true, false, false, false, false, true,
    true, false)), (String ((Ascii (false, true, true, true, false, true,
    true, false)), (String ((Ascii (true, false, false, true, true, true,
    true, false)), EmptyString))))))

(** val kw_empty : bytes **)

let kw_empty =
  bytes_of_string (String ((Ascii (true, false, true, false, false, true,
    true, false)), (String ((Ascii (true, false, true, true, false, true,
    true, false)), (String ((Ascii (false, false, false, false, true, true,
    true, false)), (String ((Ascii (false, false, true, false, true, true,
    true, false)), (String ((Ascii (true, false, false, true, true, true,
    true, false)), EmptyString))))))))))

(** val kw_regex : bytes **)

let kw_regex =
  bytes_of_string (String ((Ascii (false, true, false, false, true, true,
    true, false)), (String ((Ascii (true, false, true, false, false, true,
    true, false)), (String ((Ascii (true, true, true, false, false, true,
    true, false)), (String ((Ascii (true, false, true, false, false, true,
    true, false)), (String ((Ascii (false, false, false, true, true, true,
    true, false)), EmptyString))))))))))

(** val is_response_code3 : bytes -> bool **)

let is_response_code3 = function
| [] -> false
| a :: l ->
  (match l with
   | [] -> false
   | b1 :: l0 ->
     (match l0 with
      | [] -> false
      | b2 :: _ ->
        (&&)
          ((&&)
            ((&&) (N.leb (Npos (XI (XO (XO (XO (XI XH)))))) a)
              (N.leb a (Npos (XI (XO (XI (XO (XI XH)))))))) (is_digit b1))
          (is_digit b2)))

(** val keyword_bytes : bytes list **)

let keyword_bytes =
  map bytes_of_string dir_keywords

(** val real_keywords : bytes list **)

let real_keywords =
  map snd
    (filter (fun p -> negb (N.eqb (fst p) dir_HTTPResponseCode))
      (combine (map N.of_nat (seq O (length keyword_bytes))) keyword_bytes))

(** val is_start_with_directive : bytes -> bool **)

let is_start_with_directive b =
  if Nat.ltb (length b) (S (S (S O)))
  then false
  else (||) (is_response_code3 b)
         (existsb (fun k -> is_prefix k b) real_keywords)

(** val data_size : bytes -> z **)

let data_size data =
  Z.of_nat (length data)

(** val param_values : bytes -> lexeme list -> bytes list option **)

let rec param_values data = function
| [] -> Some []
| p :: rest ->
  (match lexeme_value data p with
   | Some v ->
     (match param_values data rest with
      | Some vs -> Some (v :: vs)
      | None -> None)
   | None -> None)

(** val eval_ctx : bytes -> conf -> ctxq -> bool option **)

let eval_ctx data cf = function
| QTypeOrAnyOrEmpty ->
  (match param_values data cf.c_params with
   | Some vs ->
     Some
       (existsb (fun v ->
         let v' = trim_square_brackets (unquote v) in
         (||) ((||) (beq v' kw_any) (beq v' kw_empty)) (is_user_type_name v'))
         vs)
   | None -> None)
| QAnyOrEmpty ->
  (match param_values data cf.c_params with
   | Some vs ->
     Some
       (negb
         (existsb (fun v ->
           let v' = trim_square_brackets (unquote v) in
           (||) (beq v' kw_any) (beq v' kw_empty)) vs))
   | None -> None)
| QRegex ->
  (match param_values data cf.c_params with
   | Some vs -> Some (existsb (fun v -> beq (unquote v) kw_regex) vs)
   | None -> None)
| QIsDirective ->
  if (||) (Z.ltb cf.c_cur Z0) (Z.ltb (data_size data) cf.c_cur)
  then Some false
  else Some
         (is_start_with_directive
           (to_end_of_line (skipn (Z.to_nat cf.c_cur) data)))

(** val eval_cond_simple : byte -> cond -> bool option **)

let rec eval_cond_simple c = function
| CByte b -> Some (N.eqb c b)
| CNot a -> option_map negb (eval_cond_simple c a)
| CAnd (a, b) ->
  (match eval_cond_simple c a with
   | Some b0 -> if b0 then eval_cond_simple c b else Some false
   | None -> None)
| COr (a, b) ->
  (match eval_cond_simple c a with
   | Some b0 -> if b0 then Some true else eval_cond_simple c b
   | None -> None)
| CTrue -> Some true
| _ -> None

(** val eval_cond :
    cond -> cond -> bytes -> conf -> byte -> cond -> bool option **)

let rec eval_cond nl_cond ws_cond data cf c = function
| CByte b -> Some (N.eqb c b)
| CNewLine -> eval_cond_simple c nl_cond
| CWhitespace -> eval_cond_simple c ws_cond
| CPrevByte (d, b) ->
  (match byte_at data (Z.sub cf.c_cur d) with
   | Some x -> Some (N.eqb x b)
   | None -> None)
| CCtx q -> eval_ctx data cf q
| CNot a -> option_map negb (eval_cond nl_cond ws_cond data cf c a)
| CAnd (a, b) ->
  (match eval_cond nl_cond ws_cond data cf c a with
   | Some b0 ->
     if b0 then eval_cond nl_cond ws_cond data cf c b else Some false
   | None -> None)
| COr (a, b) ->
  (match eval_cond nl_cond ws_cond data cf c a with
   | Some b0 ->
     if b0 then Some true else eval_cond nl_cond ws_cond data cf c b
   | None -> None)
| CTrue -> Some true

(** val mk_unexpected : bytes -> conf -> string -> string -> serr **)

let mk_unexpected data cf w e =
  EUnexpected (w, e, cf.c_cur, (negb (Z.ltb cf.c_cur (data_size data))))

(** val exec :
    cond -> cond -> bytes -> (okind -> z -> olen_res) -> byte -> stmt -> conf
    -> flow **)

let rec exec nl_cond ws_cond data olen c s cf =
  match s with
  | SSetStep st -> FFall (set_step cf st)
  | SPush st -> FFall (set_sstack cf (st :: cf.c_sstack))
  | SPushCur -> FFall (set_sstack cf (cf.c_step :: cf.c_sstack))
  | SPop ->
    (match cf.c_sstack with
     | [] -> FPanic PStepStackEmpty
     | st :: ss' -> FFall (set_step (set_sstack cf ss') st))
  | SFound (ev, off) ->
    FFall (set_finds cf (app cf.c_finds ((ev, (Z.add cf.c_cur off)) :: [])))
  | SAddCur dz -> FFall (set_cur cf (Z.add cf.c_cur dz))
  | SIf (k, t, e) ->
    (match eval_cond nl_cond ws_cond data cf c k with
     | Some b ->
       if b
       then exec nl_cond ws_cond data olen c t cf
       else exec nl_cond ws_cond data olen c e cf
     | None -> FPanic PIndexRange)
  | SSeq (a, b) ->
    (match exec nl_cond ws_cond data olen c a cf with
     | FFall cf' -> exec nl_cond ws_cond data olen c b cf'
     | x -> x)
  | SSkip -> FFall cf
  | SOracle k ->
    (match olen k cf.c_cur with
     | OLen n0 ->
       FFall
         (if Z.ltb Z0 n0
          then set_cur cf (Z.sub (Z.add cf.c_cur n0) (Zpos XH))
          else cf)
     | OLenErr (m, i) -> FErr (EOracle (m, (Z.add cf.c_cur i))))
  | SRetNil -> FRet (KNil, cf)
  | SRetErr (w, e) -> FErr (mk_unexpected data cf w e)
  | SRetErrBasic m -> FErr (EBasic (m, cf.c_cur))
  | SRetCall st -> FRet ((KCall st), cf)
  | SRetRedispatch -> FRet (KRedispatch, cf)

(** val body_of : (string * stmt) list -> state -> stmt option **)

let body_of prog st =
  option_map snd (nth_error prog (N.to_nat st))

(** val run_step :
    (string * stmt) list -> cond -> cond -> bytes -> (okind -> z -> olen_res)
    -> nat -> state -> byte -> conf -> conf res **)

let rec run_step prog nl_cond ws_cond data olen fuel st c cf =
  match fuel with
  | O -> RFuel
  | S fuel' ->
    (match body_of prog st with
     | Some body ->
       (match exec nl_cond ws_cond data olen c body cf with
        | FFall _ -> RPanic PFallthrough
        | FRet (k, cf') ->
          (match k with
           | KNil -> ROk cf'
           | KCall st' ->
             run_step prog nl_cond ws_cond data olen fuel' st' c cf'
           | KRedispatch ->
             run_step prog nl_cond ws_cond data olen fuel' cf'.c_step c cf')
        | FErr e -> RErr e
        | FPanic p -> RPanic p)
     | None -> RPanic PNoState)

(** val pair_ok : event -> event -> bool **)

let pair_ok b e =
  match b with
  | KeywordBegin -> (match e with
                     | KeywordEnd -> true
                     | _ -> false)
  | ParameterBegin -> (match e with
                       | ParameterEnd -> true
                       | _ -> false)
  | AnnotationBegin -> (match e with
                        | AnnotationEnd -> true
                        | _ -> false)
  | SchemaBegin -> (match e with
                    | SchemaEnd -> true
                    | _ -> false)
  | TextBegin -> (match e with
                  | TextEnd -> true
                  | _ -> false)
  | EnumBegin -> (match e with
                  | EnumEnd -> true
                  | _ -> false)
  | _ -> false

(** val process_event : conf -> (event * z) -> (lexeme option * conf) res **)

let process_event cf ev = match ev with
| (t, pos) ->
  if ev_IsBeginning t
  then ROk (None, (set_estack cf (ev :: cf.c_estack)))
  else if ev_IsEnding t
       then (match cf.c_estack with
             | [] -> RPanic PEventStackEmpty
             | p :: es ->
               let (bt, bpos) = p in
               let cf' = set_estack cf es in
               if pair_ok bt t
               then (match ev_ToLexemeType t with
                     | Some k ->
                       ROk ((Some { lk = k; lb = bpos; le = pos }), cf')
                     | None -> RPanic PLexemeType)
               else RErr (EBasic ((String ((Ascii (true, false, true, false,
                      false, false, true, false)), (String ((Ascii (false,
                      true, true, true, false, true, true, false)), (String
                      ((Ascii (false, false, true, false, false, true, true,
                      false)), (String ((Ascii (true, false, false, true,
                      false, true, true, false)), (String ((Ascii (false,
                      true, true, true, false, true, true, false)), (String
                      ((Ascii (true, true, true, false, false, true, true,
                      false)), (String ((Ascii (false, false, false, false,
                      false, true, false, false)), (String ((Ascii (false,
                      false, true, true, false, true, true, false)), (String
                      ((Ascii (true, false, true, false, false, true, true,
                      false)), (String ((Ascii (false, false, false, true,
                      true, true, true, false)), (String ((Ascii (true,
                      false, true, false, false, true, true, false)), (String
                      ((Ascii (true, false, true, true, false, true, true,
                      false)), (String ((Ascii (true, false, true, false,
                      false, true, true, false)), (String ((Ascii (false,
                      false, false, false, false, true, false, false)),
                      (String ((Ascii (true, false, true, false, false, true,
                      true, false)), (String ((Ascii (false, true, true,
                      false, true, true, true, false)), (String ((Ascii
                      (true, false, true, false, false, true, true, false)),
                      (String ((Ascii (false, true, true, true, false, true,
                      true, false)), (String ((Ascii (false, false, true,
                      false, true, true, true, false)), (String ((Ascii
                      (false, false, false, false, false, true, false,
                      false)), (String ((Ascii (false, false, true, false,
                      false, true, true, false)), (String ((Ascii (true,
                      true, true, true, false, true, true, false)), (String
                      ((Ascii (true, false, true, false, false, true, true,
                      false)), (String ((Ascii (true, true, false, false,
                      true, true, true, false)), (String ((Ascii (false,
                      false, false, false, false, true, false, false)),
                      (String ((Ascii (false, true, true, true, false, true,
                      true, false)), (String ((Ascii (true, true, true, true,
                      false, true, true, false)), (String ((Ascii (false,
                      false, true, false, true, true, true, false)), (String
                      ((Ascii (false, false, false, false, false, true,
                      false, false)), (String ((Ascii (true, false, true,
                      true, false, true, true, false)), (String ((Ascii
                      (true, false, false, false, false, true, true, false)),
                      (String ((Ascii (false, false, true, false, true, true,
                      true, false)), (String ((Ascii (true, true, false,
                      false, false, true, true, false)), (String ((Ascii
                      (false, false, false, true, false, true, true, false)),
                      (String ((Ascii (false, false, false, false, false,
                      true, false, false)), (String ((Ascii (false, true,
                      false, false, false, true, true, false)), (String
                      ((Ascii (true, false, true, false, false, true, true,
                      false)), (String ((Ascii (true, true, true, false,
                      false, true, true, false)), (String ((Ascii (true,
                      false, false, true, false, true, true, false)), (String
                      ((Ascii (false, true, true, true, false, true, true,
                      false)), (String ((Ascii (false, true, true, true,
                      false, true, true, false)), (String ((Ascii (true,
                      false, false, true, false, true, true, false)), (String
                      ((Ascii (false, true, true, true, false, true, true,
                      false)), (String ((Ascii (true, true, true, false,
                      false, true, true, false)), (String ((Ascii (false,
                      false, false, false, false, true, false, false)),
                      (String ((Ascii (true, false, true, false, false, true,
                      true, false)), (String ((Ascii (false, true, true,
                      false, true, true, true, false)), (String ((Ascii
                      (true, false, true, false, false, true, true, false)),
                      (String ((Ascii (false, true, true, true, false, true,
                      true, false)), (String ((Ascii (false, false, true,
                      false, true, true, true, false)),
                      EmptyString)))))))))))))))))))))))))))))))))))))))))))))))))))))))))))))))))))))))))))))))))))))))))))))))))))),
                      cf.c_cur)))
       else if ev_IsSingle t
            then (match ev_ToLexemeType t with
                  | Some k -> ROk ((Some { lk = k; lb = pos; le = pos }), cf)
                  | None -> RPanic PLexemeType)
            else RErr (EBasic ((String ((Ascii (true, false, true, false,
                   true, false, true, false)), (String ((Ascii (false, true,
                   true, true, false, true, true, false)), (String ((Ascii
                   (true, true, false, false, true, true, true, false)),
                   (String ((Ascii (true, false, true, false, true, true,
                   true, false)), (String ((Ascii (false, false, false,
                   false, true, true, true, false)), (String ((Ascii (false,
                   false, false, false, true, true, true, false)), (String
                   ((Ascii (true, true, true, true, false, true, true,
                   false)), (String ((Ascii (false, true, false, false, true,
                   true, true, false)), (String ((Ascii (false, false, true,
                   false, true, true, true, false)), (String ((Ascii (true,
                   false, true, false, false, true, true, false)), (String
                   ((Ascii (false, false, true, false, false, true, true,
                   false)), (String ((Ascii (false, false, false, false,
                   false, true, false, false)), (String ((Ascii (false,
                   false, true, true, false, true, true, false)), (String
                   ((Ascii (true, false, true, false, false, true, true,
                   false)), (String ((Ascii (false, false, false, true, true,
                   true, true, false)), (String ((Ascii (true, false, true,
                   false, false, true, true, false)), (String ((Ascii (true,
                   false, true, true, false, true, true, false)), (String
                   ((Ascii (true, false, true, false, false, true, true,
                   false)), (String ((Ascii (false, false, false, false,
                   false, true, false, false)), (String ((Ascii (true, false,
                   true, false, false, true, true, false)), (String ((Ascii
                   (false, true, true, false, true, true, true, false)),
                   (String ((Ascii (true, false, true, false, false, true,
                   true, false)), (String ((Ascii (false, true, true, true,
                   false, true, true, false)), (String ((Ascii (false, false,
                   true, false, true, true, true, false)), (String ((Ascii
                   (false, false, false, false, false, true, false, false)),
                   (String ((Ascii (false, false, true, false, true, true,
                   true, false)), (String ((Ascii (true, false, false, true,
                   true, true, true, false)), (String ((Ascii (false, false,
                   false, false, true, true, true, false)), (String ((Ascii
                   (true, false, true, false, false, true, true, false)),
                   EmptyString)))))))))))))))))))))))))))))))))))))))))))))))))))))))))),
                   cf.c_cur))

(** val note_lexeme : conf -> lexeme -> conf **)

let note_lexeme cf l =
  match l.lk with
  | LKeyword -> set_params cf []
  | LParameter -> set_params cf (app cf.c_params (l :: []))
  | _ -> cf

(** val drain : nat -> conf -> (lexeme option * conf) res **)

let rec drain n0 cf =
  match n0 with
  | O -> ROk (None, cf)
  | S n' ->
    (match cf.c_finds with
     | [] -> RPanic PFindsEmpty
     | ev :: fs ->
       (match process_event (set_finds cf fs) ev with
        | ROk a ->
          let (o, cf') = a in
          (match o with
           | Some l -> ROk ((Some l), (note_lexeme cf' l))
           | None -> drain n' cf')
        | x -> x))

(** val step_fuel : nat **)

let step_fuel =
  S (S (S (S (S (S (S (S O)))))))

(** val next_loop :
    (string * stmt) list -> cond -> cond -> bytes -> (okind -> z -> olen_res)
    -> nat -> conf -> (lexeme option * conf) res **)

let rec next_loop prog nl_cond ws_cond data olen fuel cf =
  match fuel with
  | O -> RFuel
  | S fuel' ->
    if Z.ltb (data_size data) cf.c_cur
    then ROk (None, cf)
    else if Z.ltb cf.c_cur Z0
         then RPanic PIndexRange
         else let at_end = Z.eqb cf.c_cur (data_size data) in
              let c =
                if at_end
                then N0
                else (match byte_at data cf.c_cur with
                      | Some b -> b
                      | None -> N0)
              in
              if (&&) (negb at_end) (N.eqb c N0)
              then RErr (EBasic ((String ((Ascii (false, true, true, false,
                     false, false, true, false)), (String ((Ascii (true,
                     false, false, true, false, true, true, false)), (String
                     ((Ascii (false, false, true, true, false, true, true,
                     false)), (String ((Ascii (true, false, true, false,
                     false, true, true, false)), (String ((Ascii (false,
                     false, false, false, false, true, false, false)),
                     (String ((Ascii (true, true, false, false, false, true,
                     true, false)), (String ((Ascii (true, false, false,
                     false, false, true, true, false)), (String ((Ascii
                     (false, true, true, true, false, true, true, false)),
                     (String ((Ascii (false, true, true, true, false, true,
                     true, false)), (String ((Ascii (true, true, true, true,
                     false, true, true, false)), (String ((Ascii (false,
                     false, true, false, true, true, true, false)), (String
                     ((Ascii (false, false, false, false, false, true, false,
                     false)), (String ((Ascii (true, true, false, false,
                     false, true, true, false)), (String ((Ascii (true, true,
                     true, true, false, true, true, false)), (String ((Ascii
                     (false, true, true, true, false, true, true, false)),
                     (String ((Ascii (false, false, true, false, true, true,
                     true, false)), (String ((Ascii (true, false, false,
                     false, false, true, true, false)), (String ((Ascii
                     (true, false, false, true, false, true, true, false)),
                     (String ((Ascii (false, true, true, true, false, true,
                     true, false)), (String ((Ascii (false, false, false,
                     false, false, true, false, false)), (String ((Ascii
                     (false, true, false, false, false, true, true, false)),
                     (String ((Ascii (true, false, false, true, true, true,
                     true, false)), (String ((Ascii (false, false, true,
                     false, true, true, true, false)), (String ((Ascii (true,
                     false, true, false, false, true, true, false)), (String
                     ((Ascii (false, false, false, false, false, true, false,
                     false)), (String ((Ascii (false, true, false, true,
                     true, true, true, false)), (String ((Ascii (true, false,
                     true, false, false, true, true, false)), (String ((Ascii
                     (false, true, false, false, true, true, true, false)),
                     (String ((Ascii (true, true, true, true, false, true,
                     true, false)),
                     EmptyString)))))))))))))))))))))))))))))))))))))))))))))))))))))))))),
                     cf.c_cur))
              else (match run_step prog nl_cond ws_cond data olen step_fuel
                            cf.c_step c cf with
                    | ROk cf1 ->
                      let cf2 = set_cur cf1 (Z.add cf1.c_cur (Zpos XH)) in
                      (match drain (length cf2.c_finds) cf2 with
                       | ROk a ->
                         let (o, cf3) = a in
                         (match o with
                          | Some l -> ROk ((Some l), cf3)
                          | None ->
                            next_loop prog nl_cond ws_cond data olen fuel' cf3)
                       | x -> x)
                    | RErr e -> RErr e
                    | RPanic p -> RPanic p
                    | RFuel -> RFuel)

(** val loop_fuel : bytes -> nat **)

let loop_fuel data =
  add (mul (S (S (S (S O)))) (length data)) (S (S (S (S (S (S (S (S (S (S (S
    (S (S (S (S (S O))))))))))))))))

(** val next :
    (string * stmt) list -> cond -> cond -> bytes -> (okind -> z -> olen_res)
    -> conf -> (lexeme option * conf) res **)

let next prog nl_cond ws_cond data olen cf =
  match cf.c_finds with
  | [] -> next_loop prog nl_cond ws_cond data olen (loop_fuel data) cf
  | ev :: fs ->
    (match process_event (set_finds cf fs) ev with
     | ROk a ->
       let (o, cf') = a in
       (match o with
        | Some l -> ROk ((Some l), cf')
        | None ->
          next_loop prog nl_cond ws_cond data olen (loop_fuel data) cf')
     | x -> x)

type scan_end =
| EndOk
| EndErr of serr
| EndPanic of panic
| EndFuel

(** val st_stateAnnotation : state **)

let st_stateAnnotation =
  N0

(** val st_stateAnnotationSign2 : state **)

let st_stateAnnotationSign2 =
  Npos XH

(** val st_stateAnnotationTextStart : state **)

let st_stateAnnotationTextStart =
  Npos (XO XH)

(** val st_stateB : state **)

let st_stateB =
  Npos (XI XH)

(** val st_stateBa : state **)

let st_stateBa =
  Npos (XO (XO XH))

(** val st_stateBas : state **)

let st_stateBas =
  Npos (XI (XO XH))

(** val st_stateBase : state **)

let st_stateBase =
  Npos (XO (XI XH))

(** val st_stateBaseU : state **)

let st_stateBaseU =
  Npos (XI (XI XH))

(** val st_stateBaseUr : state **)

let st_stateBaseUr =
  Npos (XO (XO (XO XH)))

(** val st_stateBo : state **)

let st_stateBo =
  Npos (XI (XO (XO XH)))

(** val st_stateBod : state **)

let st_stateBod =
  Npos (XO (XI (XO XH)))

(** val st_stateBodyBody : state **)

let st_stateBodyBody =
  Npos (XI (XI (XO XH)))

(** val st_stateBodyBodyOrKeyword : state **)

let st_stateBodyBodyOrKeyword =
  Npos (XO (XO (XI XH)))

(** val st_stateBodyEnded : state **)

let st_stateBodyEnded =
  Npos (XI (XO (XI XH)))

(** val st_stateCommentBlock : state **)

let st_stateCommentBlock =
  Npos (XO (XI (XI XH)))

(** val st_stateCommentDouble : state **)

let st_stateCommentDouble =
  Npos (XI (XI (XI XH)))

(** val st_stateCommentOnceClosed : state **)

let st_stateCommentOnceClosed =
  Npos (XO (XO (XO (XO XH))))

(** val st_stateCommentStarted : state **)

let st_stateCommentStarted =
  Npos (XI (XO (XO (XO XH))))

(** val st_stateCommentTwiceClosed : state **)

let st_stateCommentTwiceClosed =
  Npos (XO (XI (XO (XO XH))))

(** val st_stateContextClosed : state **)

let st_stateContextClosed =
  Npos (XI (XI (XO (XO XH))))

(** val st_stateContextOpenedOnNewline : state **)

let st_stateContextOpenedOnNewline =
  Npos (XO (XO (XI (XO XH))))

(** val st_stateD : state **)

let st_stateD =
  Npos (XI (XO (XI (XO XH))))

(** val st_stateDE : state **)

let st_stateDE =
  Npos (XO (XI (XI (XO XH))))

(** val st_stateDEL : state **)

let st_stateDEL =
  Npos (XI (XI (XI (XO XH))))

(** val st_stateDELE : state **)

let st_stateDELE =
  Npos (XO (XO (XO (XI XH))))

(** val st_stateDELET : state **)

let st_stateDELET =
  Npos (XI (XO (XO (XI XH))))

(** val st_stateDe : state **)

let st_stateDe =
  Npos (XO (XI (XO (XI XH))))

(** val st_stateDes : state **)

let st_stateDes =
  Npos (XI (XI (XO (XI XH))))

(** val st_stateDesc : state **)

let st_stateDesc =
  Npos (XO (XO (XI (XI XH))))

(** val st_stateDescr : state **)

let st_stateDescr =
  Npos (XI (XO (XI (XI XH))))

(** val st_stateDescri : state **)

let st_stateDescri =
  Npos (XO (XI (XI (XI XH))))

(** val st_stateDescrip : state **)

let st_stateDescrip =
  Npos (XI (XI (XI (XI XH))))

(** val st_stateDescript : state **)

let st_stateDescript =
  Npos (XO (XO (XO (XO (XO XH)))))

(** val st_stateDescripti : state **)

let st_stateDescripti =
  Npos (XI (XO (XO (XO (XO XH)))))

(** val st_stateDescriptio : state **)

let st_stateDescriptio =
  Npos (XO (XI (XO (XO (XO XH)))))

(** val st_stateDescriptionText : state **)

let st_stateDescriptionText =
  Npos (XI (XI (XO (XO (XO XH)))))

(** val st_stateDescriptionTextBegin : state **)

let st_stateDescriptionTextBegin =
  Npos (XO (XO (XI (XO (XO XH)))))

(** val st_stateDescriptionTextBeginStarter : state **)

let st_stateDescriptionTextBeginStarter =
  Npos (XI (XO (XI (XO (XO XH)))))

(** val st_stateDescriptionTextBracketsInner : state **)

let st_stateDescriptionTextBracketsInner =
  Npos (XO (XI (XI (XO (XO XH)))))

(** val st_stateDescriptionTextBracketsInnerNewLine : state **)

let st_stateDescriptionTextBracketsInnerNewLine =
  Npos (XI (XI (XI (XO (XO XH)))))

(** val st_stateDescriptionTextNewline : state **)

let st_stateDescriptionTextNewline =
  Npos (XO (XO (XO (XI (XO XH)))))

(** val st_stateE : state **)

let st_stateE =
  Npos (XI (XO (XO (XI (XO XH)))))

(** val st_stateEN : state **)

let st_stateEN =
  Npos (XO (XI (XO (XI (XO XH)))))

(** val st_stateENU : state **)

let st_stateENU =
  Npos (XI (XI (XO (XI (XO XH)))))

(** val st_stateEnumBody : state **)

let st_stateEnumBody =
  Npos (XO (XO (XI (XI (XO XH)))))

(** val st_stateEnumBodyClose : state **)

let st_stateEnumBodyClose =
  Npos (XI (XO (XI (XI (XO XH)))))

(** val st_stateEnumBodyEnded : state **)

let st_stateEnumBodyEnded =
  Npos (XO (XI (XI (XI (XO XH)))))

(** val st_stateExpectKeyword : state **)

let st_stateExpectKeyword =
  Npos (XI (XI (XI (XI (XO XH)))))

(** val st_stateG : state **)

let st_stateG =
  Npos (XO (XO (XO (XO (XI XH)))))

(** val st_stateGE : state **)

let st_stateGE =
  Npos (XI (XO (XO (XO (XI XH)))))

(** val st_stateH : state **)

let st_stateH =
  Npos (XO (XI (XO (XO (XI XH)))))

(** val st_stateHe : state **)

let st_stateHe =
  Npos (XI (XI (XO (XO (XI XH)))))

(** val st_stateHea : state **)

let st_stateHea =
  Npos (XO (XO (XI (XO (XI XH)))))

(** val st_stateHead : state **)

let st_stateHead =
  Npos (XI (XO (XI (XO (XI XH)))))

(** val st_stateHeade : state **)

let st_stateHeade =
  Npos (XO (XI (XI (XO (XI XH)))))

(** val st_stateHeader : state **)

let st_stateHeader =
  Npos (XI (XI (XI (XO (XI XH)))))

(** val st_stateHeaderBody : state **)

let st_stateHeaderBody =
  Npos (XO (XO (XO (XI (XI XH)))))

(** val st_stateI : state **)

let st_stateI =
  Npos (XI (XO (XO (XI (XI XH)))))

(** val st_stateIN : state **)

let st_stateIN =
  Npos (XO (XI (XO (XI (XI XH)))))

(** val st_stateINC : state **)

let st_stateINC =
  Npos (XI (XI (XO (XI (XI XH)))))

(** val st_stateINCL : state **)

let st_stateINCL =
  Npos (XO (XO (XI (XI (XI XH)))))

(** val st_stateINCLU : state **)

let st_stateINCLU =
  Npos (XI (XO (XI (XI (XI XH)))))

(** val st_stateINCLUD : state **)

let st_stateINCLUD =
  Npos (XO (XI (XI (XI (XI XH)))))

(** val st_stateINF : state **)

let st_stateINF =
  Npos (XI (XI (XI (XI (XI XH)))))

(** val st_stateJ : state **)

let st_stateJ =
  Npos (XO (XO (XO (XO (XO (XO XH))))))

(** val st_stateJS : state **)

let st_stateJS =
  Npos (XI (XO (XO (XO (XO (XO XH))))))

(** val st_stateJSI : state **)

let st_stateJSI =
  Npos (XO (XI (XO (XO (XO (XO XH))))))

(** val st_stateJSIG : state **)

let st_stateJSIG =
  Npos (XI (XI (XO (XO (XO (XO XH))))))

(** val st_stateJSIGH : state **)

let st_stateJSIGH =
  Npos (XO (XO (XI (XO (XO (XO XH))))))

(** val st_stateJSchema : state **)

let st_stateJSchema =
  Npos (XI (XO (XI (XO (XO (XO XH))))))

(** val st_stateM : state **)

let st_stateM =
  Npos (XO (XI (XI (XO (XO (XO XH))))))

(** val st_stateMA : state **)

let st_stateMA =
  Npos (XI (XI (XI (XO (XO (XO XH))))))

(** val st_stateMAC : state **)

let st_stateMAC =
  Npos (XO (XO (XO (XI (XO (XO XH))))))

(** val st_stateMACR : state **)

let st_stateMACR =
  Npos (XI (XO (XO (XI (XO (XO XH))))))

(** val st_stateMe : state **)

let st_stateMe =
  Npos (XO (XI (XO (XI (XO (XO XH))))))

(** val st_stateMet : state **)

let st_stateMet =
  Npos (XI (XI (XO (XI (XO (XO XH))))))

(** val st_stateMeth : state **)

let st_stateMeth =
  Npos (XO (XO (XI (XI (XO (XO XH))))))

(** val st_stateMetho : state **)

let st_stateMetho =
  Npos (XI (XO (XI (XI (XO (XO XH))))))

(** val st_stateMultilineAnnotation : state **)

let st_stateMultilineAnnotation =
  Npos (XO (XI (XI (XI (XO (XO XH))))))

(** val st_stateMultilineAnnotationTextStart : state **)

let st_stateMultilineAnnotationTextStart =
  Npos (XI (XI (XI (XI (XO (XO XH))))))

(** val st_stateO : state **)

let st_stateO =
  Npos (XO (XO (XO (XO (XI (XO XH))))))

(** val st_stateOp : state **)

let st_stateOp =
  Npos (XI (XO (XO (XO (XI (XO XH))))))

(** val st_stateOpe : state **)

let st_stateOpe =
  Npos (XO (XI (XO (XO (XI (XO XH))))))

(** val st_stateOper : state **)

let st_stateOper =
  Npos (XI (XI (XO (XO (XI (XO XH))))))

(** val st_stateOpera : state **)

let st_stateOpera =
  Npos (XO (XO (XI (XO (XI (XO XH))))))

(** val st_stateOperat : state **)

let st_stateOperat =
  Npos (XI (XO (XI (XO (XI (XO XH))))))

(** val st_stateOperati : state **)

let st_stateOperati =
  Npos (XO (XI (XI (XO (XI (XO XH))))))

(** val st_stateOperatio : state **)

let st_stateOperatio =
  Npos (XI (XI (XI (XO (XI (XO XH))))))

(** val st_stateOperation : state **)

let st_stateOperation =
  Npos (XO (XO (XO (XI (XI (XO XH))))))

(** val st_stateOperationI : state **)

let st_stateOperationI =
  Npos (XI (XO (XO (XI (XI (XO XH))))))

(** val st_stateP : state **)

let st_stateP =
  Npos (XO (XI (XO (XI (XI (XO XH))))))

(** val st_statePA : state **)

let st_statePA =
  Npos (XI (XI (XO (XI (XI (XO XH))))))

(** val st_statePAS : state **)

let st_statePAS =
  Npos (XO (XO (XI (XI (XI (XO XH))))))

(** val st_statePAST : state **)

let st_statePAST =
  Npos (XI (XO (XI (XI (XI (XO XH))))))

(** val st_statePAT : state **)

let st_statePAT =
  Npos (XO (XI (XI (XI (XI (XO XH))))))

(** val st_statePATC : state **)

let st_statePATC =
  Npos (XI (XI (XI (XI (XI (XO XH))))))

(** val st_statePO : state **)

let st_statePO =
  Npos (XO (XO (XO (XO (XO (XI XH))))))

(** val st_statePOS : state **)

let st_statePOS =
  Npos (XI (XO (XO (XO (XO (XI XH))))))

(** val st_statePU : state **)

let st_statePU =
  Npos (XO (XI (XO (XO (XO (XI XH))))))

(** val st_statePa : state **)

let st_statePa =
  Npos (XI (XI (XO (XO (XO (XI XH))))))

(** val st_statePar : state **)

let st_statePar =
  Npos (XO (XO (XI (XO (XO (XI XH))))))

(** val st_statePara : state **)

let st_statePara =
  Npos (XI (XO (XI (XO (XO (XI XH))))))

(** val st_stateParam : state **)

let st_stateParam =
  Npos (XO (XI (XI (XO (XO (XI XH))))))

(** val st_stateParameterInQuoted : state **)

let st_stateParameterInQuoted =
  Npos (XI (XI (XI (XO (XO (XI XH))))))

(** val st_stateParameterInQuotedSlash : state **)

let st_stateParameterInQuotedSlash =
  Npos (XO (XO (XO (XI (XO (XI XH))))))

(** val st_stateParameterOrAnnotation : state **)

let st_stateParameterOrAnnotation =
  Npos (XI (XO (XO (XI (XO (XI XH))))))

(** val st_stateParameterOrAnnotationAfterFirstSpace : state **)

let st_stateParameterOrAnnotationAfterFirstSpace =
  Npos (XO (XI (XO (XI (XO (XI XH))))))

(** val st_stateParameterStart : state **)

let st_stateParameterStart =
  Npos (XI (XI (XO (XI (XO (XI XH))))))

(** val st_stateParameterWoQuoted : state **)

let st_stateParameterWoQuoted =
  Npos (XO (XO (XI (XI (XO (XI XH))))))

(** val st_stateParamsBody : state **)

let st_stateParamsBody =
  Npos (XI (XO (XI (XI (XO (XI XH))))))

(** val st_statePat : state **)

let st_statePat =
  Npos (XO (XI (XI (XI (XO (XI XH))))))

(** val st_statePathBody : state **)

let st_statePathBody =
  Npos (XI (XI (XI (XI (XO (XI XH))))))

(** val st_statePr : state **)

let st_statePr =
  Npos (XO (XO (XO (XO (XI (XI XH))))))

(** val st_statePro : state **)

let st_statePro =
  Npos (XI (XO (XO (XO (XI (XI XH))))))

(** val st_stateProt : state **)

let st_stateProt =
  Npos (XO (XI (XO (XO (XI (XI XH))))))

(** val st_stateProto : state **)

let st_stateProto =
  Npos (XI (XI (XO (XO (XI (XI XH))))))

(** val st_stateProtoc : state **)

let st_stateProtoc =
  Npos (XO (XO (XI (XO (XI (XI XH))))))

(** val st_stateProtoco : state **)

let st_stateProtoco =
  Npos (XI (XO (XI (XO (XI (XI XH))))))

(** val st_stateQ : state **)

let st_stateQ =
  Npos (XO (XI (XI (XO (XI (XI XH))))))

(** val st_stateQu : state **)

let st_stateQu =
  Npos (XI (XI (XI (XO (XI (XI XH))))))

(** val st_stateQue : state **)

let st_stateQue =
  Npos (XO (XO (XO (XI (XI (XI XH))))))

(** val st_stateQuer : state **)

let st_stateQuer =
  Npos (XI (XO (XO (XI (XI (XI XH))))))

(** val st_stateQueryBodyOrKeyword : state **)

let st_stateQueryBodyOrKeyword =
  Npos (XO (XI (XO (XI (XI (XI XH))))))

(** val st_stateR : state **)

let st_stateR =
  Npos (XI (XI (XO (XI (XI (XI XH))))))

(** val st_stateRe : state **)

let st_stateRe =
  Npos (XO (XO (XI (XI (XI (XI XH))))))

(** val st_stateRegex : state **)

let st_stateRegex =
  Npos (XI (XO (XI (XI (XI (XI XH))))))

(** val st_stateRegexBody : state **)

let st_stateRegexBody =
  Npos (XO (XI (XI (XI (XI (XI XH))))))

(** val st_stateRegexBodyAfterSlash : state **)

let st_stateRegexBodyAfterSlash =
  Npos (XI (XI (XI (XI (XI (XI XH))))))

(** val st_stateRegexFirstChar : state **)

let st_stateRegexFirstChar =
  Npos (XO (XO (XO (XO (XO (XO (XO XH)))))))

(** val st_stateReq : state **)

let st_stateReq =
  Npos (XI (XO (XO (XO (XO (XO (XO XH)))))))

(** val st_stateRequ : state **)

let st_stateRequ =
  Npos (XO (XI (XO (XO (XO (XO (XO XH)))))))

(** val st_stateReque : state **)

let st_stateReque =
  Npos (XI (XI (XO (XO (XO (XO (XO XH)))))))

(** val st_stateReques : state **)

let st_stateReques =
  Npos (XO (XO (XI (XO (XO (XO (XO XH)))))))

(** val st_stateRequestBody : state **)

let st_stateRequestBody =
  Npos (XI (XO (XI (XO (XO (XO (XO XH)))))))

(** val st_stateRequestBodyOrKeyword : state **)

let st_stateRequestBodyOrKeyword =
  Npos (XO (XI (XI (XO (XO (XO (XO XH)))))))

(** val st_stateRes : state **)

let st_stateRes =
  Npos (XI (XI (XI (XO (XO (XO (XO XH)))))))

(** val st_stateResponseBody : state **)

let st_stateResponseBody =
  Npos (XO (XO (XO (XI (XO (XO (XO XH)))))))

(** val st_stateResponseBodyOrKeyword : state **)

let st_stateResponseBodyOrKeyword =
  Npos (XI (XO (XO (XI (XO (XO (XO XH)))))))

(** val st_stateResponseKeywordSecond : state **)

let st_stateResponseKeywordSecond =
  Npos (XO (XI (XO (XI (XO (XO (XO XH)))))))

(** val st_stateResponseKeywordStarted : state **)

let st_stateResponseKeywordStarted =
  Npos (XI (XI (XO (XI (XO (XO (XO XH)))))))

(** val st_stateResu : state **)

let st_stateResu =
  Npos (XO (XO (XI (XI (XO (XO (XO XH)))))))

(** val st_stateResul : state **)

let st_stateResul =
  Npos (XI (XO (XI (XI (XO (XO (XO XH)))))))

(** val st_stateResultBody : state **)

let st_stateResultBody =
  Npos (XO (XI (XI (XI (XO (XO (XO XH)))))))

(** val st_stateRoot : state **)

let st_stateRoot =
  Npos (XI (XI (XI (XI (XO (XO (XO XH)))))))

(** val st_stateS : state **)

let st_stateS =
  Npos (XO (XO (XO (XO (XI (XO (XO XH)))))))

(** val st_stateSchemaClosed : state **)

let st_stateSchemaClosed =
  Npos (XI (XO (XO (XO (XI (XO (XO XH)))))))

(** val st_stateSe : state **)

let st_stateSe =
  Npos (XO (XI (XO (XO (XI (XO (XO XH)))))))

(** val st_stateSer : state **)

let st_stateSer =
  Npos (XI (XI (XO (XO (XI (XO (XO XH)))))))

(** val st_stateServ : state **)

let st_stateServ =
  Npos (XO (XO (XI (XO (XI (XO (XO XH)))))))

(** val st_stateServe : state **)

let st_stateServe =
  Npos (XI (XO (XI (XO (XI (XO (XO XH)))))))

(** val st_stateSingleComment : state **)

let st_stateSingleComment =
  Npos (XO (XI (XI (XO (XI (XO (XO XH)))))))

(** val st_stateT : state **)

let st_stateT =
  Npos (XI (XI (XI (XO (XI (XO (XO XH)))))))

(** val st_stateTA : state **)

let st_stateTA =
  Npos (XO (XO (XO (XI (XI (XO (XO XH)))))))

(** val st_stateTa : state **)

let st_stateTa =
  Npos (XI (XO (XO (XI (XI (XO (XO XH)))))))

(** val st_stateTag : state **)

let st_stateTag =
  Npos (XO (XI (XO (XI (XI (XO (XO XH)))))))

(** val st_stateTi : state **)

let st_stateTi =
  Npos (XI (XI (XO (XI (XI (XO (XO XH)))))))

(** val st_stateTit : state **)

let st_stateTit =
  Npos (XO (XO (XI (XI (XI (XO (XO XH)))))))

(** val st_stateTitl : state **)

let st_stateTitl =
  Npos (XI (XO (XI (XI (XI (XO (XO XH)))))))

(** val st_stateTy : state **)

let st_stateTy =
  Npos (XO (XI (XI (XI (XI (XO (XO XH)))))))

(** val st_stateTyp : state **)

let st_stateTyp =
  Npos (XI (XI (XI (XI (XI (XO (XO XH)))))))

(** val st_stateTypeBody : state **)

let st_stateTypeBody =
  Npos (XO (XO (XO (XO (XO (XI (XO XH)))))))

(** val st_stateTypeBodyOrKeyword : state **)

let st_stateTypeBodyOrKeyword =
  Npos (XI (XO (XO (XO (XO (XI (XO XH)))))))

(** val st_stateU : state **)

let st_stateU =
  Npos (XO (XI (XO (XO (XO (XI (XO XH)))))))

(** val st_stateUR : state **)

let st_stateUR =
  Npos (XI (XI (XO (XO (XO (XI (XO XH)))))))

(** val st_stateV : state **)

let st_stateV =
  Npos (XO (XO (XI (XO (XO (XI (XO XH)))))))

(** val st_stateVe : state **)

let st_stateVe =
  Npos (XI (XO (XI (XO (XO (XI (XO XH)))))))

(** val st_stateVer : state **)

let st_stateVer =
  Npos (XO (XI (XI (XO (XO (XI (XO XH)))))))

(** val st_stateVers : state **)

let st_stateVers =
  Npos (XI (XI (XI (XO (XO (XI (XO XH)))))))

(** val st_stateVersi : state **)

let st_stateVersi =
  Npos (XO (XO (XO (XI (XO (XI (XO XH)))))))

(** val st_stateVersio : state **)

let st_stateVersio =
  Npos (XI (XO (XO (XI (XO (XI (XO XH)))))))

(** val prog_table : (string * stmt) list **)

let prog_table =
  ((String ((Ascii (true, true, false, false, true, true, true, false)),
    (String ((Ascii (false, false, true, false, true, true, true, false)),
    (String ((Ascii (true, false, false, false, false, true, true, false)),
    (String ((Ascii (false, false, true, false, true, true, true, false)),
    (String ((Ascii (true, false, true, false, false, true, true, false)),
    (String ((Ascii (true, false, false, false, false, false, true, false)),
    (String ((Ascii (false, true, true, true, false, true, true, false)),
    (String ((Ascii (false, true, true, true, false, true, true, false)),
    (String ((Ascii (true, true, true, true, false, true, true, false)),
    (String ((Ascii (false, false, true, false, true, true, true, false)),
    (String ((Ascii (true, false, false, false, false, true, true, false)),
    (String ((Ascii (false, false, true, false, true, true, true, false)),
    (String ((Ascii (true, false, false, true, false, true, true, false)),
    (String ((Ascii (true, true, true, true, false, true, true, false)),
    (String ((Ascii (false, true, true, true, false, true, true, false)),
    EmptyString)))))))))))))))))))))))))))))),
    (block ((SIf ((CByte (Npos (XI (XI (XO (XO (XO XH))))))),
      (block ((SFound (AnnotationEnd, (Zneg XH))) :: ((SSetStep
        st_stateSingleComment) :: (SRetNil :: [])))),
      (block ((SIf ((COr (CNewLine, (CByte N0))),
        (block ((SFound (AnnotationEnd, (Zneg
          XH))) :: (SPop :: (SRetRedispatch :: [])))), SSkip)) :: [])))) :: (SRetNil :: [])))) :: (((String
    ((Ascii (true, true, false, false, true, true, true, false)), (String
    ((Ascii (false, false, true, false, true, true, true, false)), (String
    ((Ascii (true, false, false, false, false, true, true, false)), (String
    ((Ascii (false, false, true, false, true, true, true, false)), (String
    ((Ascii (true, false, true, false, false, true, true, false)), (String
    ((Ascii (true, false, false, false, false, false, true, false)), (String
    ((Ascii (false, true, true, true, false, true, true, false)), (String
    ((Ascii (false, true, true, true, false, true, true, false)), (String
    ((Ascii (true, true, true, true, false, true, true, false)), (String
    ((Ascii (false, false, true, false, true, true, true, false)), (String
    ((Ascii (true, false, false, false, false, true, true, false)), (String
    ((Ascii (false, false, true, false, true, true, true, false)), (String
    ((Ascii (true, false, false, true, false, true, true, false)), (String
    ((Ascii (true, true, true, true, false, true, true, false)), (String
    ((Ascii (false, true, true, true, false, true, true, false)), (String
    ((Ascii (true, true, false, false, true, false, true, false)), (String
    ((Ascii (true, false, false, true, false, true, true, false)), (String
    ((Ascii (true, true, true, false, false, true, true, false)), (String
    ((Ascii (false, true, true, true, false, true, true, false)), (String
    ((Ascii (false, true, false, false, true, true, false, false)),
    EmptyString)))))))))))))))))))))))))))))))))))))))),
    (block ((SIf ((CByte (Npos (XI (XI (XI (XI (XO XH))))))),
      (block ((SSetStep st_stateAnnotationTextStart) :: [])),
      (block ((SIf ((CByte (Npos (XO (XI (XO (XI (XO XH))))))),
        (block ((SSetStep st_stateMultilineAnnotationTextStart) :: [])),
        (block ((SAddCur (Zneg (XO XH))) :: ((SSetStep
          st_stateParameterStart) :: []))))) :: [])))) :: (SRetNil :: [])))) :: (((String
    ((Ascii (true, true, false, false, true, true, true, false)), (String
    ((Ascii (false, false, true, false, true, true, true, false)), (String
    ((Ascii (true, false, false, false, false, true, true, false)), (String
    ((Ascii (false, false, true, false, true, true, true, false)), (String
    ((Ascii (true, false, true, false, false, true, true, false)), (String
    ((Ascii (true, false, false, false, false, false, true, false)), (String
    ((Ascii (false, true, true, true, false, true, true, false)), (String
    ((Ascii (false, true, true, true, false, true, true, false)), (String
    ((Ascii (true, true, true, true, false, true, true, false)), (String
    ((Ascii (false, false, true, false, true, true, true, false)), (String
    ((Ascii (true, false, false, false, false, true, true, false)), (String
    ((Ascii (false, false, true, false, true, true, true, false)), (String
    ((Ascii (true, false, false, true, false, true, true, false)), (String
    ((Ascii (true, true, true, true, false, true, true, false)), (String
    ((Ascii (false, true, true, true, false, true, true, false)), (String
    ((Ascii (false, false, true, false, true, false, true, false)), (String
    ((Ascii (true, false, true, false, false, true, true, false)), (String
    ((Ascii (false, false, false, true, true, true, true, false)), (String
    ((Ascii (false, false, true, false, true, true, true, false)), (String
    ((Ascii (true, true, false, false, true, false, true, false)), (String
    ((Ascii (false, false, true, false, true, true, true, false)), (String
    ((Ascii (true, false, false, false, false, true, true, false)), (String
    ((Ascii (false, true, false, false, true, true, true, false)), (String
    ((Ascii (false, false, true, false, true, true, true, false)),
    EmptyString)))))))))))))))))))))))))))))))))))))))))))))))),
    (block ((SFound (AnnotationBegin, Z0)) :: ((SSetStep
      st_stateAnnotation) :: ((SRetCall st_stateAnnotation) :: []))))) :: (((String
    ((Ascii (true, true, false, false, true, true, true, false)), (String
    ((Ascii (false, false, true, false, true, true, true, false)), (String
    ((Ascii (true, false, false, false, false, true, true, false)), (String
    ((Ascii (false, false, true, false, true, true, true, false)), (String
    ((Ascii (true, false, true, false, false, true, true, false)), (String
    ((Ascii (false, true, false, false, false, false, true, false)),
    EmptyString)))))))))))),
    (block ((SIf ((CByte (Npos (XI (XI (XI (XI (XO (XI XH)))))))),
      (block ((SSetStep st_stateBo) :: (SRetNil :: []))),
      (block ((SIf ((CByte (Npos (XI (XO (XO (XO (XO (XI XH)))))))),
        (block ((SSetStep st_stateBa) :: (SRetNil :: []))),
        (block ((SRetErr ((String ((Ascii (true, false, false, true, false,
          true, true, false)), (String ((Ascii (false, true, true, true,
          false, true, true, false)), (String ((Ascii (false, false, false,
          false, false, true, false, false)), (String ((Ascii (false, false,
          true, false, false, true, true, false)), (String ((Ascii (true,
          false, false, true, false, true, true, false)), (String ((Ascii
          (false, true, false, false, true, true, true, false)), (String
          ((Ascii (true, false, true, false, false, true, true, false)),
          (String ((Ascii (true, true, false, false, false, true, true,
          false)), (String ((Ascii (false, false, true, false, true, true,
          true, false)), (String ((Ascii (true, false, false, true, false,
          true, true, false)), (String ((Ascii (false, true, true, false,
          true, true, true, false)), (String ((Ascii (true, false, true,
          false, false, true, true, false)), (String ((Ascii (false, false,
          false, false, false, true, false, false)), (String ((Ascii (false,
          true, true, true, false, true, true, false)), (String ((Ascii
          (true, false, false, false, false, true, true, false)), (String
          ((Ascii (true, false, true, true, false, true, true, false)),
          (String ((Ascii (true, false, true, false, false, true, true,
          false)), EmptyString)))))))))))))))))))))))))))))))))),
          EmptyString)) :: [])))) :: [])))) :: []))) :: (((String ((Ascii
    (true, true, false, false, true, true, true, false)), (String ((Ascii
    (false, false, true, false, true, true, true, false)), (String ((Ascii
    (true, false, false, false, false, true, true, false)), (String ((Ascii
    (false, false, true, false, true, true, true, false)), (String ((Ascii
    (true, false, true, false, false, true, true, false)), (String ((Ascii
    (false, true, false, false, false, false, true, false)), (String ((Ascii
    (true, false, false, false, false, true, true, false)),
    EmptyString)))))))))))))),
    (block ((SIf ((CByte (Npos (XI (XI (XO (XO (XI (XI XH)))))))),
      (block ((SSetStep st_stateBas) :: (SRetNil :: []))),
      (block ((SRetErr ((String ((Ascii (true, false, false, true, false,
        true, true, false)), (String ((Ascii (false, true, true, true, false,
        true, true, false)), (String ((Ascii (false, false, false, false,
        false, true, false, false)), (String ((Ascii (true, true, false,
        true, false, true, true, false)), (String ((Ascii (true, false, true,
        false, false, true, true, false)), (String ((Ascii (true, false,
        false, true, true, true, true, false)), (String ((Ascii (true, true,
        true, false, true, true, true, false)), (String ((Ascii (true, true,
        true, true, false, true, true, false)), (String ((Ascii (false, true,
        false, false, true, true, true, false)), (String ((Ascii (false,
        false, true, false, false, true, true, false)), (String ((Ascii
        (false, false, false, false, false, true, false, false)), (String
        ((Ascii (false, true, false, false, false, false, true, false)),
        (String ((Ascii (true, false, false, false, false, true, true,
        false)), (String ((Ascii (true, true, false, false, true, true, true,
        false)), (String ((Ascii (true, false, true, false, false, true,
        true, false)), (String ((Ascii (true, false, true, false, true,
        false, true, false)), (String ((Ascii (false, true, false, false,
        true, true, true, false)), (String ((Ascii (false, false, true, true,
        false, true, true, false)),
        EmptyString)))))))))))))))))))))))))))))))))))), (String ((Ascii
        (true, true, false, false, true, true, true, false)),
        EmptyString)))) :: [])))) :: []))) :: (((String ((Ascii (true, true,
    false, false, true, true, true, false)), (String ((Ascii (false, false,
    true, false, true, true, true, false)), (String ((Ascii (true, false,
    false, false, false, true, true, false)), (String ((Ascii (false, false,
    true, false, true, true, true, false)), (String ((Ascii (true, false,
    true, false, false, true, true, false)), (String ((Ascii (false, true,
    false, false, false, false, true, false)), (String ((Ascii (true, false,
    false, false, false, true, true, false)), (String ((Ascii (true, true,
    false, false, true, true, true, false)), EmptyString)))))))))))))))),
    (block ((SIf ((CByte (Npos (XI (XO (XI (XO (XO (XI XH)))))))),
      (block ((SSetStep st_stateBase) :: (SRetNil :: []))),
      (block ((SRetErr ((String ((Ascii (true, false, false, true, false,
        true, true, false)), (String ((Ascii (false, true, true, true, false,
        true, true, false)), (String ((Ascii (false, false, false, false,
        false, true, false, false)), (String ((Ascii (true, true, false,
        true, false, true, true, false)), (String ((Ascii (true, false, true,
        false, false, true, true, false)), (String ((Ascii (true, false,
        false, true, true, true, true, false)), (String ((Ascii (true, true,
        true, false, true, true, true, false)), (String ((Ascii (true, true,
        true, true, false, true, true, false)), (String ((Ascii (false, true,
        false, false, true, true, true, false)), (String ((Ascii (false,
        false, true, false, false, true, true, false)), (String ((Ascii
        (false, false, false, false, false, true, false, false)), (String
        ((Ascii (false, true, false, false, false, false, true, false)),
        (String ((Ascii (true, false, false, false, false, true, true,
        false)), (String ((Ascii (true, true, false, false, true, true, true,
        false)), (String ((Ascii (true, false, true, false, false, true,
        true, false)), (String ((Ascii (true, false, true, false, true,
        false, true, false)), (String ((Ascii (false, true, false, false,
        true, true, true, false)), (String ((Ascii (false, false, true, true,
        false, true, true, false)),
        EmptyString)))))))))))))))))))))))))))))))))))), (String ((Ascii
        (true, false, true, false, false, true, true, false)),
        EmptyString)))) :: [])))) :: []))) :: (((String ((Ascii (true, true,
    false, false, true, true, true, false)), (String ((Ascii (false, false,
    true, false, true, true, true, false)), (String ((Ascii (true, false,
    false, false, false, true, true, false)), (String ((Ascii (false, false,
    true, false, true, true, true, false)), (String ((Ascii (true, false,
    true, false, false, true, true, false)), (String ((Ascii (false, true,
    false, false, false, false, true, false)), (String ((Ascii (true, false,
    false, false, false, true, true, false)), (String ((Ascii (true, true,
    false, false, true, true, true, false)), (String ((Ascii (true, false,
    true, false, false, true, true, false)), EmptyString)))))))))))))))))),
    (block ((SIf ((CByte (Npos (XI (XO (XI (XO (XI (XO XH)))))))),
      (block ((SSetStep st_stateBaseU) :: (SRetNil :: []))),
      (block ((SRetErr ((String ((Ascii (true, false, false, true, false,
        true, true, false)), (String ((Ascii (false, true, true, true, false,
        true, true, false)), (String ((Ascii (false, false, false, false,
        false, true, false, false)), (String ((Ascii (true, true, false,
        true, false, true, true, false)), (String ((Ascii (true, false, true,
        false, false, true, true, false)), (String ((Ascii (true, false,
        false, true, true, true, true, false)), (String ((Ascii (true, true,
        true, false, true, true, true, false)), (String ((Ascii (true, true,
        true, true, false, true, true, false)), (String ((Ascii (false, true,
        false, false, true, true, true, false)), (String ((Ascii (false,
        false, true, false, false, true, true, false)), (String ((Ascii
        (false, false, false, false, false, true, false, false)), (String
        ((Ascii (false, true, false, false, false, false, true, false)),
        (String ((Ascii (true, false, false, false, false, true, true,
        false)), (String ((Ascii (true, true, false, false, true, true, true,
        false)), (String ((Ascii (true, false, true, false, false, true,
        true, false)), (String ((Ascii (true, false, true, false, true,
        false, true, false)), (String ((Ascii (false, true, false, false,
        true, true, true, false)), (String ((Ascii (false, false, true, true,
        false, true, true, false)),
        EmptyString)))))))))))))))))))))))))))))))))))), (String ((Ascii
        (true, false, true, false, true, false, true, false)),
        EmptyString)))) :: [])))) :: []))) :: (((String ((Ascii (true, true,
    false, false, true, true, true, false)), (String ((Ascii (false, false,
    true, false, true, true, true, false)), (String ((Ascii (true, false,
    false, false, false, true, true, false)), (String ((Ascii (false, false,
    true, false, true, true, true, false)), (String ((Ascii (true, false,
    true, false, false, true, true, false)), (String ((Ascii (false, true,
    false, false, false, false, true, false)), (String ((Ascii (true, false,
    false, false, false, true, true, false)), (String ((Ascii (true, true,
    false, false, true, true, true, false)), (String ((Ascii (true, false,
    true, false, false, true, true, false)), (String ((Ascii (true, false,
    true, false, true, false, true, false)), EmptyString)))))))))))))))))))),
    (block ((SIf ((CByte (Npos (XO (XI (XO (XO (XI (XI XH)))))))),
      (block ((SSetStep st_stateBaseUr) :: (SRetNil :: []))),
      (block ((SRetErr ((String ((Ascii (true, false, false, true, false,
        true, true, false)), (String ((Ascii (false, true, true, true, false,
        true, true, false)), (String ((Ascii (false, false, false, false,
        false, true, false, false)), (String ((Ascii (true, true, false,
        true, false, true, true, false)), (String ((Ascii (true, false, true,
        false, false, true, true, false)), (String ((Ascii (true, false,
        false, true, true, true, true, false)), (String ((Ascii (true, true,
        true, false, true, true, true, false)), (String ((Ascii (true, true,
        true, true, false, true, true, false)), (String ((Ascii (false, true,
        false, false, true, true, true, false)), (String ((Ascii (false,
        false, true, false, false, true, true, false)), (String ((Ascii
        (false, false, false, false, false, true, false, false)), (String
        ((Ascii (false, true, false, false, false, false, true, false)),
        (String ((Ascii (true, false, false, false, false, true, true,
        false)), (String ((Ascii (true, true, false, false, true, true, true,
        false)), (String ((Ascii (true, false, true, false, false, true,
        true, false)), (String ((Ascii (true, false, true, false, true,
        false, true, false)), (String ((Ascii (false, true, false, false,
        true, true, true, false)), (String ((Ascii (false, false, true, true,
        false, true, true, false)),
        EmptyString)))))))))))))))))))))))))))))))))))), (String ((Ascii
        (false, true, false, false, true, true, true, false)),
        EmptyString)))) :: [])))) :: []))) :: (((String ((Ascii (true, true,
    false, false, true, true, true, false)), (String ((Ascii (false, false,
    true, false, true, true, true, false)), (String ((Ascii (true, false,
    false, false, false, true, true, false)), (String ((Ascii (false, false,
    true, false, true, true, true, false)), (String ((Ascii (true, false,
    true, false, false, true, true, false)), (String ((Ascii (false, true,
    false, false, false, false, true, false)), (String ((Ascii (true, false,
    false, false, false, true, true, false)), (String ((Ascii (true, true,
    false, false, true, true, true, false)), (String ((Ascii (true, false,
    true, false, false, true, true, false)), (String ((Ascii (true, false,
    true, false, true, false, true, false)), (String ((Ascii (false, true,
    false, false, true, true, true, false)),
    EmptyString)))))))))))))))))))))),
    (block ((SIf ((CByte (Npos (XO (XO (XI (XI (XO (XI XH)))))))),
      (block ((SFound (KeywordEnd, Z0)) :: ((SPush
        st_stateExpectKeyword) :: ((SSetStep
        st_stateParameterOrAnnotation) :: (SRetNil :: []))))),
      (block ((SRetErr ((String ((Ascii (true, false, false, true, false,
        true, true, false)), (String ((Ascii (false, true, true, true, false,
        true, true, false)), (String ((Ascii (false, false, false, false,
        false, true, false, false)), (String ((Ascii (true, true, false,
        true, false, true, true, false)), (String ((Ascii (true, false, true,
        false, false, true, true, false)), (String ((Ascii (true, false,
        false, true, true, true, true, false)), (String ((Ascii (true, true,
        true, false, true, true, true, false)), (String ((Ascii (true, true,
        true, true, false, true, true, false)), (String ((Ascii (false, true,
        false, false, true, true, true, false)), (String ((Ascii (false,
        false, true, false, false, true, true, false)), (String ((Ascii
        (false, false, false, false, false, true, false, false)), (String
        ((Ascii (false, true, false, false, false, false, true, false)),
        (String ((Ascii (true, false, false, false, false, true, true,
        false)), (String ((Ascii (true, true, false, false, true, true, true,
        false)), (String ((Ascii (true, false, true, false, false, true,
        true, false)), (String ((Ascii (true, false, true, false, true,
        false, true, false)), (String ((Ascii (false, true, false, false,
        true, true, true, false)), (String ((Ascii (false, false, true, true,
        false, true, true, false)),
        EmptyString)))))))))))))))))))))))))))))))))))), (String ((Ascii
        (false, false, true, true, false, true, true, false)),
        EmptyString)))) :: [])))) :: []))) :: (((String ((Ascii (true, true,
    false, false, true, true, true, false)), (String ((Ascii (false, false,
    true, false, true, true, true, false)), (String ((Ascii (true, false,
    false, false, false, true, true, false)), (String ((Ascii (false, false,
    true, false, true, true, true, false)), (String ((Ascii (true, false,
    true, false, false, true, true, false)), (String ((Ascii (false, true,
    false, false, false, false, true, false)), (String ((Ascii (true, true,
    true, true, false, true, true, false)), EmptyString)))))))))))))),
    (block ((SIf ((CByte (Npos (XO (XO (XI (XO (XO (XI XH)))))))),
      (block ((SSetStep st_stateBod) :: (SRetNil :: []))),
      (block ((SRetErr ((String ((Ascii (true, false, false, true, false,
        true, true, false)), (String ((Ascii (false, true, true, true, false,
        true, true, false)), (String ((Ascii (false, false, false, false,
        false, true, false, false)), (String ((Ascii (true, true, false,
        true, false, true, true, false)), (String ((Ascii (true, false, true,
        false, false, true, true, false)), (String ((Ascii (true, false,
        false, true, true, true, true, false)), (String ((Ascii (true, true,
        true, false, true, true, true, false)), (String ((Ascii (true, true,
        true, true, false, true, true, false)), (String ((Ascii (false, true,
        false, false, true, true, true, false)), (String ((Ascii (false,
        false, true, false, false, true, true, false)), (String ((Ascii
        (false, false, false, false, false, true, false, false)), (String
        ((Ascii (false, true, false, false, false, false, true, false)),
        (String ((Ascii (true, true, true, true, false, true, true, false)),
        (String ((Ascii (false, false, true, false, false, true, true,
        false)), (String ((Ascii (true, false, false, true, true, true, true,
        false)), EmptyString)))))))))))))))))))))))))))))), (String ((Ascii
        (false, false, true, false, false, true, true, false)),
        EmptyString)))) :: [])))) :: []))) :: (((String ((Ascii (true, true,
    false, false, true, true, true, false)), (String ((Ascii (false, false,
    true, false, true, true, true, false)), (String ((Ascii (true, false,
    false, false, false, true, true, false)), (String ((Ascii (false, false,
    true, false, true, true, true, false)), (String ((Ascii (true, false,
    true, false, false, true, true, false)), (String ((Ascii (false, true,
    false, false, false, false, true, false)), (String ((Ascii (true, true,
    true, true, false, true, true, false)), (String ((Ascii (false, false,
    true, false, false, true, true, false)), EmptyString)))))))))))))))),
    (block ((SIf ((CByte (Npos (XI (XO (XO (XI (XI (XI XH)))))))),
      (block ((SFound (KeywordEnd, Z0)) :: ((SPush
        st_stateBodyBodyOrKeyword) :: ((SSetStep
        st_stateParameterOrAnnotation) :: (SRetNil :: []))))),
      (block ((SRetErr ((String ((Ascii (true, false, false, true, false,
        true, true, false)), (String ((Ascii (false, true, true, true, false,
        true, true, false)), (String ((Ascii (false, false, false, false,
        false, true, false, false)), (String ((Ascii (true, true, false,
        true, false, true, true, false)), (String ((Ascii (true, false, true,
        false, false, true, true, false)), (String ((Ascii (true, false,
        false, true, true, true, true, false)), (String ((Ascii (true, true,
        true, false, true, true, true, false)), (String ((Ascii (true, true,
        true, true, false, true, true, false)), (String ((Ascii (false, true,
        false, false, true, true, true, false)), (String ((Ascii (false,
        false, true, false, false, true, true, false)), (String ((Ascii
        (false, false, false, false, false, true, false, false)), (String
        ((Ascii (false, true, false, false, false, false, true, false)),
        (String ((Ascii (true, true, true, true, false, true, true, false)),
        (String ((Ascii (false, false, true, false, false, true, true,
        false)), (String ((Ascii (true, false, false, true, true, true, true,
        false)), EmptyString)))))))))))))))))))))))))))))), (String ((Ascii
        (true, false, false, true, true, true, true, false)),
        EmptyString)))) :: [])))) :: []))) :: (((String ((Ascii (true, true,
    false, false, true, true, true, false)), (String ((Ascii (false, false,
    true, false, true, true, true, false)), (String ((Ascii (true, false,
    false, false, false, true, true, false)), (String ((Ascii (false, false,
    true, false, true, true, true, false)), (String ((Ascii (true, false,
    true, false, false, true, true, false)), (String ((Ascii (false, true,
    false, false, false, false, true, false)), (String ((Ascii (true, true,
    true, true, false, true, true, false)), (String ((Ascii (false, false,
    true, false, false, true, true, false)), (String ((Ascii (true, false,
    false, true, true, true, true, false)), (String ((Ascii (false, true,
    false, false, false, false, true, false)), (String ((Ascii (true, true,
    true, true, false, true, true, false)), (String ((Ascii (false, false,
    true, false, false, true, true, false)), (String ((Ascii (true, false,
    false, true, true, true, true, false)),
    EmptyString)))))))))))))))))))))))))),
    (block ((SIf ((COr (CWhitespace, CNewLine)), (block (SRetNil :: [])),
      (block ((SIf ((CByte (Npos (XO (XO (XO (XI (XO XH))))))),
        (block ((SFound (ContextOpen, Z0)) :: (SRetNil :: []))),
        (block (SPop :: (SRetRedispatch :: []))))) :: [])))) :: []))) :: (((String
    ((Ascii (true, true, false, false, true, true, true, false)), (String
    ((Ascii (false, false, true, false, true, true, true, false)), (String
    ((Ascii (true, false, false, false, false, true, true, false)), (String
    ((Ascii (false, false, true, false, true, true, true, false)), (String
    ((Ascii (true, false, true, false, false, true, true, false)), (String
    ((Ascii (false, true, false, false, false, false, true, false)), (String
    ((Ascii (true, true, true, true, false, true, true, false)), (String
    ((Ascii (false, false, true, false, false, true, true, false)), (String
    ((Ascii (true, false, false, true, true, true, true, false)), (String
    ((Ascii (false, true, false, false, false, false, true, false)), (String
    ((Ascii (true, true, true, true, false, true, true, false)), (String
    ((Ascii (false, false, true, false, false, true, true, false)), (String
    ((Ascii (true, false, false, true, true, true, true, false)), (String
    ((Ascii (true, true, true, true, false, false, true, false)), (String
    ((Ascii (false, true, false, false, true, true, true, false)), (String
    ((Ascii (true, true, false, true, false, false, true, false)), (String
    ((Ascii (true, false, true, false, false, true, true, false)), (String
    ((Ascii (true, false, false, true, true, true, true, false)), (String
    ((Ascii (true, true, true, false, true, true, true, false)), (String
    ((Ascii (true, true, true, true, false, true, true, false)), (String
    ((Ascii (false, true, false, false, true, true, true, false)), (String
    ((Ascii (false, false, true, false, false, true, true, false)),
    EmptyString)))))))))))))))))))))))))))))))))))))))))))),
    (block ((SIf ((CNot (CCtx QTypeOrAnyOrEmpty)),
      (block ((SIf ((CCtx QRegex), (block ((SPush st_stateRegex) :: [])),
        (block ((SPush st_stateJSchema) :: [])))) :: ((SSetStep
        st_stateBodyBody) :: []))),
      (block ((SSetStep st_stateExpectKeyword) :: [])))) :: (SRetRedispatch :: [])))) :: (((String
    ((Ascii (true, true, false, false, true, true, true, false)), (String
    ((Ascii (false, false, true, false, true, true, true, false)), (String
    ((Ascii (true, false, false, false, false, true, true, false)), (String
    ((Ascii (false, false, true, false, true, true, true, false)), (String
    ((Ascii (true, false, true, false, false, true, true, false)), (String
    ((Ascii (false, true, false, false, false, false, true, false)), (String
    ((Ascii (true, true, true, true, false, true, true, false)), (String
    ((Ascii (false, false, true, false, false, true, true, false)), (String
    ((Ascii (true, false, false, true, true, true, true, false)), (String
    ((Ascii (true, false, true, false, false, false, true, false)), (String
    ((Ascii (false, true, true, true, false, true, true, false)), (String
    ((Ascii (false, false, true, false, false, true, true, false)), (String
    ((Ascii (true, false, true, false, false, true, true, false)), (String
    ((Ascii (false, false, true, false, false, true, true, false)),
    EmptyString)))))))))))))))))))))))))))),
    (block ((SIf (CWhitespace, (block (SRetNil :: [])),
      (block ((SIf ((COr (CNewLine, (CByte N0))),
        (block ((SSetStep st_stateExpectKeyword) :: (SRetNil :: []))),
        (block ((SIf ((CByte (Npos (XI (XI (XO (XO (XO XH))))))),
          (block (SPushCur :: ((SSetStep
            st_stateCommentStarted) :: (SRetNil :: [])))),
          (block ((SRetErr ((String ((Ascii (true, false, false, false,
            false, true, true, false)), (String ((Ascii (false, true, true,
            false, false, true, true, false)), (String ((Ascii (false, false,
            true, false, true, true, true, false)), (String ((Ascii (true,
            false, true, false, false, true, true, false)), (String ((Ascii
            (false, true, false, false, true, true, true, false)), (String
            ((Ascii (false, false, false, false, false, true, false, false)),
            (String ((Ascii (false, true, false, false, false, true, true,
            false)), (String ((Ascii (true, true, true, true, false, true,
            true, false)), (String ((Ascii (false, false, true, false, false,
            true, true, false)), (String ((Ascii (true, false, false, true,
            true, true, true, false)), EmptyString)))))))))))))))))))),
            EmptyString)) :: [])))) :: [])))) :: [])))) :: []))) :: (((String
    ((Ascii (true, true, false, false, true, true, true, false)), (String
    ((Ascii (false, false, true, false, true, true, true, false)), (String
    ((Ascii (true, false, false, false, false, true, true, false)), (String
    ((Ascii (false, false, true, false, true, true, true, false)), (String
    ((Ascii (true, false, true, false, false, true, true, false)), (String
    ((Ascii (true, true, false, false, false, false, true, false)), (String
    ((Ascii (true, true, true, true, false, true, true, false)), (String
    ((Ascii (true, false, true, true, false, true, true, false)), (String
    ((Ascii (true, false, true, true, false, true, true, false)), (String
    ((Ascii (true, false, true, false, false, true, true, false)), (String
    ((Ascii (false, true, true, true, false, true, true, false)), (String
    ((Ascii (false, false, true, false, true, true, true, false)), (String
    ((Ascii (false, true, false, false, false, false, true, false)), (String
    ((Ascii (false, false, true, true, false, true, true, false)), (String
    ((Ascii (true, true, true, true, false, true, true, false)), (String
    ((Ascii (true, true, false, false, false, true, true, false)), (String
    ((Ascii (true, true, false, true, false, true, true, false)),
    EmptyString)))))))))))))))))))))))))))))))))),
    (block ((SIf ((CByte N0),
      (block ((SRetErr ((String ((Ascii (false, true, true, true, false,
        true, true, false)), (String ((Ascii (true, true, true, true, false,
        true, true, false)), (String ((Ascii (false, false, true, false,
        true, true, true, false)), (String ((Ascii (false, false, false,
        false, false, true, false, false)), (String ((Ascii (false, true,
        true, false, false, true, true, false)), (String ((Ascii (true, true,
        true, true, false, true, true, false)), (String ((Ascii (true, false,
        true, false, true, true, true, false)), (String ((Ascii (false, true,
        true, true, false, true, true, false)), (String ((Ascii (false,
        false, true, false, false, true, true, false)), (String ((Ascii
        (false, false, false, false, false, true, false, false)), (String
        ((Ascii (false, true, false, false, false, true, true, false)),
        (String ((Ascii (true, true, true, true, false, true, true, false)),
        (String ((Ascii (true, false, true, false, true, true, true, false)),
        (String ((Ascii (false, true, true, true, false, true, true, false)),
        (String ((Ascii (false, false, true, false, false, true, true,
        false)), (String ((Ascii (true, false, false, false, false, true,
        true, false)), (String ((Ascii (false, true, false, false, true,
        true, true, false)), (String ((Ascii (true, false, false, true, true,
        true, true, false)), (String ((Ascii (false, false, false, false,
        false, true, false, false)), (String ((Ascii (true, false, true,
        false, false, true, true, false)), (String ((Ascii (false, true,
        true, true, false, true, true, false)), (String ((Ascii (false,
        false, true, false, false, true, true, false)), (String ((Ascii
        (false, false, false, false, false, true, false, false)), (String
        ((Ascii (true, true, false, false, true, true, true, false)), (String
        ((Ascii (true, false, false, true, true, true, true, false)), (String
        ((Ascii (true, false, true, true, false, true, true, false)), (String
        ((Ascii (false, true, false, false, false, true, true, false)),
        (String ((Ascii (true, true, true, true, false, true, true, false)),
        (String ((Ascii (false, false, true, true, false, true, true,
        false)), (String ((Ascii (true, true, false, false, true, true, true,
        false)),
        EmptyString)))))))))))))))))))))))))))))))))))))))))))))))))))))))))))),
        (String ((Ascii (true, true, false, false, false, true, false,
        false)), (String ((Ascii (true, true, false, false, false, true,
        false, false)), (String ((Ascii (true, true, false, false, false,
        true, false, false)), EmptyString)))))))) :: [])),
      (block ((SIf ((CByte (Npos (XI (XI (XO (XO (XO XH))))))),
        (block ((SSetStep st_stateCommentOnceClosed) :: (SRetNil :: []))),
        (block (SRetNil :: [])))) :: [])))) :: []))) :: (((String ((Ascii
    (true, true, false, false, true, true, true, false)), (String ((Ascii
    (false, false, true, false, true, true, true, false)), (String ((Ascii
    (true, false, false, false, false, true, true, false)), (String ((Ascii
    (false, false, true, false, true, true, true, false)), (String ((Ascii
    (true, false, true, false, false, true, true, false)), (String ((Ascii
    (true, true, false, false, false, false, true, false)), (String ((Ascii
    (true, true, true, true, false, true, true, false)), (String ((Ascii
    (true, false, true, true, false, true, true, false)), (String ((Ascii
    (true, false, true, true, false, true, true, false)), (String ((Ascii
    (true, false, true, false, false, true, true, false)), (String ((Ascii
    (false, true, true, true, false, true, true, false)), (String ((Ascii
    (false, false, true, false, true, true, true, false)), (String ((Ascii
    (false, false, true, false, false, false, true, false)), (String ((Ascii
    (true, true, true, true, false, true, true, false)), (String ((Ascii
    (true, false, true, false, true, true, true, false)), (String ((Ascii
    (false, true, false, false, false, true, true, false)), (String ((Ascii
    (false, false, true, true, false, true, true, false)), (String ((Ascii
    (true, false, true, false, false, true, true, false)),
    EmptyString)))))))))))))))))))))))))))))))))))),
    (block ((SIf ((CByte (Npos (XI (XI (XO (XO (XO XH))))))),
      (block ((SSetStep st_stateCommentBlock) :: (SRetNil :: []))),
      (block ((SRetCall st_stateSingleComment) :: [])))) :: []))) :: (((String
    ((Ascii (true, true, false, false, true, true, true, false)), (String
    ((Ascii (false, false, true, false, true, true, true, false)), (String
    ((Ascii (true, false, false, false, false, true, true, false)), (String
    ((Ascii (false, false, true, false, true, true, true, false)), (String
    ((Ascii (true, false, true, false, false, true, true, false)), (String
    ((Ascii (true, true, false, false, false, false, true, false)), (String
    ((Ascii (true, true, true, true, false, true, true, false)), (String
    ((Ascii (true, false, true, true, false, true, true, false)), (String
    ((Ascii (true, false, true, true, false, true, true, false)), (String
    ((Ascii (true, false, true, false, false, true, true, false)), (String
    ((Ascii (false, true, true, true, false, true, true, false)), (String
    ((Ascii (false, false, true, false, true, true, true, false)), (String
    ((Ascii (true, true, true, true, false, false, true, false)), (String
    ((Ascii (false, true, true, true, false, true, true, false)), (String
    ((Ascii (true, true, false, false, false, true, true, false)), (String
    ((Ascii (true, false, true, false, false, true, true, false)), (String
    ((Ascii (true, true, false, false, false, false, true, false)), (String
    ((Ascii (false, false, true, true, false, true, true, false)), (String
    ((Ascii (true, true, true, true, false, true, true, false)), (String
    ((Ascii (true, true, false, false, true, true, true, false)), (String
    ((Ascii (true, false, true, false, false, true, true, false)), (String
    ((Ascii (false, false, true, false, false, true, true, false)),
    EmptyString)))))))))))))))))))))))))))))))))))))))))))),
    (block ((SIf ((CByte (Npos (XI (XI (XO (XO (XO XH))))))),
      (block ((SSetStep st_stateCommentTwiceClosed) :: (SRetNil :: []))),
      (block ((SSetStep st_stateCommentBlock) :: (SRetRedispatch :: []))))) :: []))) :: (((String
    ((Ascii (true, true, false, false, true, true, true, false)), (String
    ((Ascii (false, false, true, false, true, true, true, false)), (String
    ((Ascii (true, false, false, false, false, true, true, false)), (String
    ((Ascii (false, false, true, false, true, true, true, false)), (String
    ((Ascii (true, false, true, false, false, true, true, false)), (String
    ((Ascii (true, true, false, false, false, false, true, false)), (String
    ((Ascii (true, true, true, true, false, true, true, false)), (String
    ((Ascii (true, false, true, true, false, true, true, false)), (String
    ((Ascii (true, false, true, true, false, true, true, false)), (String
    ((Ascii (true, false, true, false, false, true, true, false)), (String
    ((Ascii (false, true, true, true, false, true, true, false)), (String
    ((Ascii (false, false, true, false, true, true, true, false)), (String
    ((Ascii (true, true, false, false, true, false, true, false)), (String
    ((Ascii (false, false, true, false, true, true, true, false)), (String
    ((Ascii (true, false, false, false, false, true, true, false)), (String
    ((Ascii (false, true, false, false, true, true, true, false)), (String
    ((Ascii (false, false, true, false, true, true, true, false)), (String
    ((Ascii (true, false, true, false, false, true, true, false)), (String
    ((Ascii (false, false, true, false, false, true, true, false)),
    EmptyString)))))))))))))))))))))))))))))))))))))),
    (block ((SIf ((CByte (Npos (XI (XI (XO (XO (XO XH))))))),
      (block ((SSetStep st_stateCommentDouble) :: (SRetNil :: []))),
      (block ((SRetCall st_stateSingleComment) :: [])))) :: []))) :: (((String
    ((Ascii (true, true, false, false, true, true, true, false)), (String
    ((Ascii (false, false, true, false, true, true, true, false)), (String
    ((Ascii (true, false, false, false, false, true, true, false)), (String
    ((Ascii (false, false, true, false, true, true, true, false)), (String
    ((Ascii (true, false, true, false, false, true, true, false)), (String
    ((Ascii (true, true, false, false, false, false, true, false)), (String
    ((Ascii (true, true, true, true, false, true, true, false)), (String
    ((Ascii (true, false, true, true, false, true, true, false)), (String
    ((Ascii (true, false, true, true, false, true, true, false)), (String
    ((Ascii (true, false, true, false, false, true, true, false)), (String
    ((Ascii (false, true, true, true, false, true, true, false)), (String
    ((Ascii (false, false, true, false, true, true, true, false)), (String
    ((Ascii (false, false, true, false, true, false, true, false)), (String
    ((Ascii (true, true, true, false, true, true, true, false)), (String
    ((Ascii (true, false, false, true, false, true, true, false)), (String
    ((Ascii (true, true, false, false, false, true, true, false)), (String
    ((Ascii (true, false, true, false, false, true, true, false)), (String
    ((Ascii (true, true, false, false, false, false, true, false)), (String
    ((Ascii (false, false, true, true, false, true, true, false)), (String
    ((Ascii (true, true, true, true, false, true, true, false)), (String
    ((Ascii (true, true, false, false, true, true, true, false)), (String
    ((Ascii (true, false, true, false, false, true, true, false)), (String
    ((Ascii (false, false, true, false, false, true, true, false)),
    EmptyString)))))))))))))))))))))))))))))))))))))))))))))),
    (block ((SIf ((CByte (Npos (XI (XI (XO (XO (XO XH))))))),
      (block (SPop :: (SRetNil :: []))),
      (block ((SSetStep st_stateCommentBlock) :: (SRetRedispatch :: []))))) :: []))) :: (((String
    ((Ascii (true, true, false, false, true, true, true, false)), (String
    ((Ascii (false, false, true, false, true, true, true, false)), (String
    ((Ascii (true, false, false, false, false, true, true, false)), (String
    ((Ascii (false, false, true, false, true, true, true, false)), (String
    ((Ascii (true, false, true, false, false, true, true, false)), (String
    ((Ascii (true, true, false, false, false, false, true, false)), (String
    ((Ascii (true, true, true, true, false, true, true, false)), (String
    ((Ascii (false, true, true, true, false, true, true, false)), (String
    ((Ascii (false, false, true, false, true, true, true, false)), (String
    ((Ascii (true, false, true, false, false, true, true, false)), (String
    ((Ascii (false, false, false, true, true, true, true, false)), (String
    ((Ascii (false, false, true, false, true, true, true, false)), (String
    ((Ascii (true, true, false, false, false, false, true, false)), (String
    ((Ascii (false, false, true, true, false, true, true, false)), (String
    ((Ascii (true, true, true, true, false, true, true, false)), (String
    ((Ascii (true, true, false, false, true, true, true, false)), (String
    ((Ascii (true, false, true, false, false, true, true, false)), (String
    ((Ascii (false, false, true, false, false, true, true, false)),
    EmptyString)))))))))))))))))))))))))))))))))))),
    (block ((SIf ((COr (CWhitespace, (CByte N0))), (block (SRetNil :: [])),
      (block ((SIf (CNewLine,
        (block ((SSetStep st_stateExpectKeyword) :: (SRetNil :: []))),
        (block ((SIf ((CByte (Npos (XI (XI (XO (XO (XO XH))))))),
          (block (SPushCur :: ((SSetStep
            st_stateCommentStarted) :: (SRetNil :: [])))),
          (block ((SRetErr ((String ((Ascii (true, false, false, false,
            false, true, true, false)), (String ((Ascii (false, true, true,
            false, false, true, true, false)), (String ((Ascii (false, false,
            true, false, true, true, true, false)), (String ((Ascii (true,
            false, true, false, false, true, true, false)), (String ((Ascii
            (false, true, false, false, true, true, true, false)), (String
            ((Ascii (false, false, false, false, false, true, false, false)),
            (String ((Ascii (true, false, true, false, false, true, true,
            false)), (String ((Ascii (false, false, false, true, true, true,
            true, false)), (String ((Ascii (false, false, false, false, true,
            true, true, false)), (String ((Ascii (false, false, true, true,
            false, true, true, false)), (String ((Ascii (true, false, false,
            true, false, true, true, false)), (String ((Ascii (true, true,
            false, false, false, true, true, false)), (String ((Ascii (true,
            false, false, true, false, true, true, false)), (String ((Ascii
            (false, false, true, false, true, true, true, false)), (String
            ((Ascii (false, false, false, false, false, true, false, false)),
            (String ((Ascii (true, true, false, false, false, true, true,
            false)), (String ((Ascii (true, true, true, true, false, true,
            true, false)), (String ((Ascii (false, true, true, true, false,
            true, true, false)), (String ((Ascii (false, false, true, false,
            true, true, true, false)), (String ((Ascii (true, false, true,
            false, false, true, true, false)), (String ((Ascii (false, false,
            false, true, true, true, true, false)), (String ((Ascii (false,
            false, true, false, true, true, true, false)), (String ((Ascii
            (false, false, false, false, false, true, false, false)), (String
            ((Ascii (true, true, false, false, false, true, true, false)),
            (String ((Ascii (false, false, true, true, false, true, true,
            false)), (String ((Ascii (true, true, true, true, false, true,
            true, false)), (String ((Ascii (true, true, false, false, true,
            true, true, false)), (String ((Ascii (true, false, true, false,
            false, true, true, false)),
            EmptyString)))))))))))))))))))))))))))))))))))))))))))))))))))))))),
            EmptyString)) :: [])))) :: [])))) :: [])))) :: []))) :: (((String
    ((Ascii (true, true, false, false, true, true, true, false)), (String
    ((Ascii (false, false, true, false, true, true, true, false)), (String
    ((Ascii (true, false, false, false, false, true, true, false)), (String
    ((Ascii (false, false, true, false, true, true, true, false)), (String
    ((Ascii (true, false, true, false, false, true, true, false)), (String
    ((Ascii (true, true, false, false, false, false, true, false)), (String
    ((Ascii (true, true, true, true, false, true, true, false)), (String
    ((Ascii (false, true, true, true, false, true, true, false)), (String
    ((Ascii (false, false, true, false, true, true, true, false)), (String
    ((Ascii (true, false, true, false, false, true, true, false)), (String
    ((Ascii (false, false, false, true, true, true, true, false)), (String
    ((Ascii (false, false, true, false, true, true, true, false)), (String
    ((Ascii (true, true, true, true, false, false, true, false)), (String
    ((Ascii (false, false, false, false, true, true, true, false)), (String
    ((Ascii (true, false, true, false, false, true, true, false)), (String
    ((Ascii (false, true, true, true, false, true, true, false)), (String
    ((Ascii (true, false, true, false, false, true, true, false)), (String
    ((Ascii (false, false, true, false, false, true, true, false)), (String
    ((Ascii (true, true, true, true, false, false, true, false)), (String
    ((Ascii (false, true, true, true, false, true, true, false)), (String
    ((Ascii (false, true, true, true, false, false, true, false)), (String
    ((Ascii (true, false, true, false, false, true, true, false)), (String
    ((Ascii (true, true, true, false, true, true, true, false)), (String
    ((Ascii (false, false, true, true, false, true, true, false)), (String
    ((Ascii (true, false, false, true, false, true, true, false)), (String
    ((Ascii (false, true, true, true, false, true, true, false)), (String
    ((Ascii (true, false, true, false, false, true, true, false)),
    EmptyString)))))))))))))))))))))))))))))))))))))))))))))))))))))),
    (block ((SIf (CWhitespace, (block (SRetNil :: [])),
      (block ((SIf (CNewLine,
        (block ((SSetStep st_stateExpectKeyword) :: (SRetNil :: []))),
        (block ((SIf ((CByte (Npos (XI (XI (XO (XO (XO XH))))))),
          (block (SPushCur :: ((SSetStep
            st_stateCommentStarted) :: (SRetNil :: [])))),
          (block ((SRetErrBasic (String ((Ascii (true, false, false, false,
            false, true, true, false)), (String ((Ascii (false, false, false,
            false, true, true, true, false)), (String ((Ascii (true, false,
            false, false, false, true, true, false)), (String ((Ascii (false,
            true, false, false, true, true, true, false)), (String ((Ascii
            (false, false, true, false, true, true, true, false)), (String
            ((Ascii (false, false, false, false, false, true, false, false)),
            (String ((Ascii (false, true, true, false, false, true, true,
            false)), (String ((Ascii (false, true, false, false, true, true,
            true, false)), (String ((Ascii (true, true, true, true, false,
            true, true, false)), (String ((Ascii (true, false, true, true,
            false, true, true, false)), (String ((Ascii (false, false, false,
            false, false, true, false, false)), (String ((Ascii (false,
            false, true, false, true, true, true, false)), (String ((Ascii
            (false, false, false, true, false, true, true, false)), (String
            ((Ascii (true, false, true, false, false, true, true, false)),
            (String ((Ascii (false, false, false, false, false, true, false,
            false)), (String ((Ascii (true, true, true, true, false, true,
            true, false)), (String ((Ascii (false, false, false, false, true,
            true, true, false)), (String ((Ascii (true, false, true, false,
            false, true, true, false)), (String ((Ascii (false, true, true,
            true, false, true, true, false)), (String ((Ascii (true, false,
            false, true, false, true, true, false)), (String ((Ascii (false,
            true, true, true, false, true, true, false)), (String ((Ascii
            (true, true, true, false, false, true, true, false)), (String
            ((Ascii (false, false, false, false, false, true, false, false)),
            (String ((Ascii (false, false, false, false, true, true, true,
            false)), (String ((Ascii (true, false, false, false, false, true,
            true, false)), (String ((Ascii (false, true, false, false, true,
            true, true, false)), (String ((Ascii (true, false, true, false,
            false, true, true, false)), (String ((Ascii (false, true, true,
            true, false, true, true, false)), (String ((Ascii (false, false,
            true, false, true, true, true, false)), (String ((Ascii (false,
            false, false, true, false, true, true, false)), (String ((Ascii
            (true, false, true, false, false, true, true, false)), (String
            ((Ascii (true, true, false, false, true, true, true, false)),
            (String ((Ascii (true, false, false, true, false, true, true,
            false)), (String ((Ascii (true, true, false, false, true, true,
            true, false)), (String ((Ascii (false, false, true, true, false,
            true, false, false)), (String ((Ascii (false, false, false,
            false, false, true, false, false)), (String ((Ascii (false,
            false, true, false, true, true, true, false)), (String ((Ascii
            (false, false, false, true, false, true, true, false)), (String
            ((Ascii (true, false, true, false, false, true, true, false)),
            (String ((Ascii (false, true, false, false, true, true, true,
            false)), (String ((Ascii (true, false, true, false, false, true,
            true, false)), (String ((Ascii (false, false, false, false,
            false, true, false, false)), (String ((Ascii (true, true, false,
            false, true, true, true, false)), (String ((Ascii (false, false,
            false, true, false, true, true, false)), (String ((Ascii (true,
            true, true, true, false, true, true, false)), (String ((Ascii
            (true, false, true, false, true, true, true, false)), (String
            ((Ascii (false, false, true, true, false, true, true, false)),
            (String ((Ascii (false, false, true, false, false, true, true,
            false)), (String ((Ascii (false, false, false, false, false,
            true, false, false)), (String ((Ascii (false, true, false, false,
            false, true, true, false)), (String ((Ascii (true, false, true,
            false, false, true, true, false)), (String ((Ascii (false, false,
            false, false, false, true, false, false)), (String ((Ascii
            (false, true, true, true, false, true, true, false)), (String
            ((Ascii (true, true, true, true, false, true, true, false)),
            (String ((Ascii (false, false, true, false, true, true, true,
            false)), (String ((Ascii (false, false, false, true, false, true,
            true, false)), (String ((Ascii (true, false, false, true, false,
            true, true, false)), (String ((Ascii (false, true, true, true,
            false, true, true, false)), (String ((Ascii (true, true, true,
            false, false, true, true, false)), (String ((Ascii (false, false,
            false, false, false, true, false, false)), (String ((Ascii (true,
            false, true, false, false, true, true, false)), (String ((Ascii
            (false, false, true, true, false, true, true, false)), (String
            ((Ascii (true, true, false, false, true, true, true, false)),
            (String ((Ascii (true, false, true, false, false, true, true,
            false)), (String ((Ascii (false, false, false, false, false,
            true, false, false)), (String ((Ascii (true, true, true, true,
            false, true, true, false)), (String ((Ascii (false, true, true,
            true, false, true, true, false)), (String ((Ascii (false, false,
            false, false, false, true, false, false)), (String ((Ascii
            (false, false, true, false, true, true, true, false)), (String
            ((Ascii (false, false, false, true, false, true, true, false)),
            (String ((Ascii (true, false, false, true, false, true, true,
            false)), (String ((Ascii (true, true, false, false, true, true,
            true, false)), (String ((Ascii (false, false, false, false,
            false, true, false, false)), (String ((Ascii (false, false, true,
            true, false, true, true, false)), (String ((Ascii (true, false,
            false, true, false, true, true, false)), (String ((Ascii (false,
            true, true, true, false, true, true, false)), (String ((Ascii
            (true, false, true, false, false, true, true, false)), (String
            ((Ascii (false, false, true, true, false, true, false, false)),
            (String ((Ascii (false, false, false, false, false, true, false,
            false)), (String ((Ascii (false, false, true, true, false, true,
            true, false)), (String ((Ascii (true, false, true, false, false,
            true, true, false)), (String ((Ascii (true, false, false, false,
            false, true, true, false)), (String ((Ascii (false, true, false,
            false, true, true, true, false)), (String ((Ascii (false, true,
            true, true, false, true, true, false)), (String ((Ascii (false,
            false, false, false, false, true, false, false)), (String ((Ascii
            (true, false, true, true, false, true, true, false)), (String
            ((Ascii (true, true, true, true, false, true, true, false)),
            (String ((Ascii (false, true, false, false, true, true, true,
            false)), (String ((Ascii (true, false, true, false, false, true,
            true, false)), (String ((Ascii (false, false, false, false,
            false, true, false, false)), (String ((Ascii (true, false, false,
            false, false, true, true, false)), (String ((Ascii (false, true,
            false, false, false, true, true, false)), (String ((Ascii (true,
            true, true, true, false, true, true, false)), (String ((Ascii
            (true, false, true, false, true, true, true, false)), (String
            ((Ascii (false, false, true, false, true, true, true, false)),
            (String ((Ascii (false, false, false, false, false, true, false,
            false)), (String ((Ascii (false, false, true, false, true, true,
            true, false)), (String ((Ascii (false, false, false, true, false,
            true, true, false)), (String ((Ascii (true, false, true, false,
            false, true, true, false)), (String ((Ascii (false, false, false,
            false, false, true, false, false)), (String ((Ascii (true, false,
            true, false, false, true, true, false)), (String ((Ascii (false,
            false, false, true, true, true, true, false)), (String ((Ascii
            (false, false, false, false, true, true, true, false)), (String
            ((Ascii (false, false, true, true, false, true, true, false)),
            (String ((Ascii (true, false, false, true, false, true, true,
            false)), (String ((Ascii (true, true, false, false, false, true,
            true, false)), (String ((Ascii (true, false, false, true, false,
            true, true, false)), (String ((Ascii (false, false, true, false,
            true, true, true, false)), (String ((Ascii (false, false, false,
            false, false, true, false, false)), (String ((Ascii (false,
            false, true, false, false, true, true, false)), (String ((Ascii
            (true, false, false, true, false, true, true, false)), (String
            ((Ascii (false, true, false, false, true, true, true, false)),
            (String ((Ascii (true, false, true, false, false, true, true,
            false)), (String ((Ascii (true, true, false, false, false, true,
            true, false)), (String ((Ascii (true, false, false, true, false,
            true, true, false)), (String ((Ascii (false, false, true, false,
            true, true, true, false)), (String ((Ascii (false, true, true,
            false, true, true, true, false)), (String ((Ascii (true, false,
            true, false, false, true, true, false)), (String ((Ascii (false,
            false, false, false, false, true, false, false)), (String ((Ascii
            (false, true, false, false, false, true, true, false)), (String
            ((Ascii (true, true, true, true, false, true, true, false)),
            (String ((Ascii (true, false, true, false, true, true, true,
            false)), (String ((Ascii (false, true, true, true, false, true,
            true, false)), (String ((Ascii (false, false, true, false, false,
            true, true, false)), (String ((Ascii (true, false, false, false,
            false, true, true, false)), (String ((Ascii (false, true, false,
            false, true, true, true, false)), (String ((Ascii (true, false,
            false, true, false, true, true, false)), (String ((Ascii (true,
            false, true, false, false, true, true, false)), (String ((Ascii
            (true, true, false, false, true, true, true, false)), (String
            ((Ascii (false, false, false, false, false, true, false, false)),
            (String ((Ascii (false, false, false, true, false, true, true,
            false)), (String ((Ascii (true, false, true, false, false, true,
            true, false)), (String ((Ascii (false, true, false, false, true,
            true, true, false)), (String ((Ascii (true, false, true, false,
            false, true, true, false)), (String ((Ascii (false, true, false,
            true, true, true, false, false)), (String ((Ascii (false, false,
            false, false, false, true, false, false)), (String ((Ascii
            (false, false, false, true, false, true, true, false)), (String
            ((Ascii (false, false, true, false, true, true, true, false)),
            (String ((Ascii (false, false, true, false, true, true, true,
            false)), (String ((Ascii (false, false, false, false, true, true,
            true, false)), (String ((Ascii (true, true, false, false, true,
            true, true, false)), (String ((Ascii (false, true, false, true,
            true, true, false, false)), (String ((Ascii (true, true, true,
            true, false, true, false, false)), (String ((Ascii (true, true,
            true, true, false, true, false, false)), (String ((Ascii (false,
            true, false, true, false, true, true, false)), (String ((Ascii
            (true, true, false, false, true, true, true, false)), (String
            ((Ascii (true, false, false, true, false, true, true, false)),
            (String ((Ascii (true, true, true, false, false, true, true,
            false)), (String ((Ascii (false, false, false, true, false, true,
            true, false)), (String ((Ascii (false, false, true, false, true,
            true, true, false)), (String ((Ascii (false, true, true, true,
            false, true, false, false)), (String ((Ascii (true, false, false,
            true, false, true, true, false)), (String ((Ascii (true, true,
            true, true, false, true, true, false)), (String ((Ascii (true,
            true, true, true, false, true, false, false)), (String ((Ascii
            (false, false, true, false, false, true, true, false)), (String
            ((Ascii (true, true, true, true, false, true, true, false)),
            (String ((Ascii (true, true, false, false, false, true, true,
            false)), (String ((Ascii (true, true, false, false, true, true,
            true, false)), (String ((Ascii (true, true, true, true, false,
            true, false, false)), (String ((Ascii (false, true, false, true,
            false, true, true, false)), (String ((Ascii (true, true, false,
            false, true, true, true, false)), (String ((Ascii (true, false,
            false, true, false, true, true, false)), (String ((Ascii (true,
            true, true, false, false, true, true, false)), (String ((Ascii
            (false, false, false, true, false, true, true, false)), (String
            ((Ascii (false, false, true, false, true, true, true, false)),
            (String ((Ascii (true, false, true, true, false, true, false,
            false)), (String ((Ascii (true, false, false, false, false, true,
            true, false)), (String ((Ascii (false, false, false, false, true,
            true, true, false)), (String ((Ascii (true, false, false, true,
            false, true, true, false)), (String ((Ascii (true, false, true,
            true, false, true, false, false)), (String ((Ascii (false, false,
            false, false, true, true, false, false)), (String ((Ascii (true,
            false, true, true, false, true, false, false)), (String ((Ascii
            (true, true, false, false, true, true, false, false)), (String
            ((Ascii (true, true, false, false, false, true, false, false)),
            (String ((Ascii (false, true, false, false, false, true, true,
            false)), (String ((Ascii (true, true, true, true, false, true,
            true, false)), (String ((Ascii (true, false, true, false, true,
            true, true, false)), (String ((Ascii (false, true, true, true,
            false, true, true, false)), (String ((Ascii (false, false, true,
            false, false, true, true, false)), (String ((Ascii (true, false,
            false, false, false, true, true, false)), (String ((Ascii (false,
            true, false, false, true, true, true, false)), (String ((Ascii
            (true, false, false, true, false, true, true, false)), (String
            ((Ascii (true, false, true, false, false, true, true, false)),
            (String ((Ascii (true, true, false, false, true, true, true,
            false)), (String ((Ascii (true, false, true, true, false, true,
            false, false)), (String ((Ascii (true, true, true, true, false,
            true, true, false)), (String ((Ascii (false, true, true, false,
            false, true, true, false)), (String ((Ascii (true, false, true,
            true, false, true, false, false)), (String ((Ascii (false, false,
            true, false, true, true, true, false)), (String ((Ascii (false,
            false, false, true, false, true, true, false)), (String ((Ascii
            (true, false, true, false, false, true, true, false)), (String
            ((Ascii (true, false, true, true, false, true, false, false)),
            (String ((Ascii (false, true, false, false, false, true, true,
            false)), (String ((Ascii (true, true, true, true, false, true,
            true, false)), (String ((Ascii (false, false, true, false, false,
            true, true, false)), (String ((Ascii (true, false, false, true,
            true, true, true, false)), (String ((Ascii (true, false, true,
            true, false, true, false, false)), (String ((Ascii (true, true,
            true, true, false, true, true, false)), (String ((Ascii (false,
            true, true, false, false, true, true, false)), (String ((Ascii
            (true, false, true, true, false, true, false, false)), (String
            ((Ascii (false, false, true, false, true, true, true, false)),
            (String ((Ascii (false, false, false, true, false, true, true,
            false)), (String ((Ascii (true, false, true, false, false, true,
            true, false)), (String ((Ascii (true, false, true, true, false,
            true, false, false)), (String ((Ascii (false, false, true, false,
            false, true, true, false)), (String ((Ascii (true, false, false,
            true, false, true, true, false)), (String ((Ascii (false, true,
            false, false, true, true, true, false)), (String ((Ascii (true,
            false, true, false, false, true, true, false)), (String ((Ascii
            (true, true, false, false, false, true, true, false)), (String
            ((Ascii (false, false, true, false, true, true, true, false)),
            (String ((Ascii (true, false, false, true, false, true, true,
            false)), (String ((Ascii (false, true, true, false, true, true,
            true, false)), (String ((Ascii (true, false, true, false, false,
            true, true, false)),
            EmptyString))))))))))))))))))))))))))))))))))))))))))))))))))))))))))))))))))))))))))))))))))))))))))))))))))))))))))))))))))))))))))))))))))))))))))))))))))))))))))))))))))))))))))))))))))))))))))))))))))))))))))))))))))))))))))))))))))))))))))))))))))))))))))))))))))))))))))))))))))))))))))))))))))))))))))))))))))))))))))))))))))))))))))))))))))))))))))))))))))))))))))))))))))))))))))))))))))))))))))))))))))))))))))))))))))))))))))) :: [])))) :: [])))) :: [])))) :: []))) :: (((String
    ((Ascii (true, true, false, false, true, true, true, false)), (String
    ((Ascii (false, false, true, false, true, true, true, false)), (String
    ((Ascii (true, false, false, false, false, true, true, false)), (String
    ((Ascii (false, false, true, false, true, true, true, false)), (String
    ((Ascii (true, false, true, false, false, true, true, false)), (String
    ((Ascii (false, false, true, false, false, false, true, false)),
    EmptyString)))))))))))),
    (block ((SIf ((CByte (Npos (XI (XO (XI (XO (XO (XO XH)))))))),
      (block ((SSetStep st_stateDE) :: (SRetNil :: []))),
      (block ((SIf ((CByte (Npos (XI (XO (XI (XO (XO (XI XH)))))))),
        (block ((SSetStep st_stateDe) :: (SRetNil :: []))),
        (block ((SRetErr ((String ((Ascii (true, false, false, true, false,
          true, true, false)), (String ((Ascii (false, true, true, true,
          false, true, true, false)), (String ((Ascii (false, false, false,
          false, false, true, false, false)), (String ((Ascii (false, false,
          true, false, false, true, true, false)), (String ((Ascii (true,
          false, false, true, false, true, true, false)), (String ((Ascii
          (false, true, false, false, true, true, true, false)), (String
          ((Ascii (true, false, true, false, false, true, true, false)),
          (String ((Ascii (true, true, false, false, false, true, true,
          false)), (String ((Ascii (false, false, true, false, true, true,
          true, false)), (String ((Ascii (true, false, false, true, false,
          true, true, false)), (String ((Ascii (false, true, true, false,
          true, true, true, false)), (String ((Ascii (true, false, true,
          false, false, true, true, false)), (String ((Ascii (false, false,
          false, false, false, true, false, false)), (String ((Ascii (false,
          true, true, true, false, true, true, false)), (String ((Ascii
          (true, false, false, false, false, true, true, false)), (String
          ((Ascii (true, false, true, true, false, true, true, false)),
          (String ((Ascii (true, false, true, false, false, true, true,
          false)), EmptyString)))))))))))))))))))))))))))))))))),
          EmptyString)) :: [])))) :: [])))) :: []))) :: (((String ((Ascii
    (true, true, false, false, true, true, true, false)), (String ((Ascii
    (false, false, true, false, true, true, true, false)), (String ((Ascii
    (true, false, false, false, false, true, true, false)), (String ((Ascii
    (false, false, true, false, true, true, true, false)), (String ((Ascii
    (true, false, true, false, false, true, true, false)), (String ((Ascii
    (false, false, true, false, false, false, true, false)), (String ((Ascii
    (true, false, true, false, false, false, true, false)),
    EmptyString)))))))))))))),
    (block ((SIf ((CByte (Npos (XO (XO (XI (XI (XO (XO XH)))))))),
      (block ((SSetStep st_stateDEL) :: (SRetNil :: []))),
      (block ((SRetErr ((String ((Ascii (true, false, false, true, false,
        true, true, false)), (String ((Ascii (false, true, true, true, false,
        true, true, false)), (String ((Ascii (false, false, false, false,
        false, true, false, false)), (String ((Ascii (true, true, false,
        true, false, true, true, false)), (String ((Ascii (true, false, true,
        false, false, true, true, false)), (String ((Ascii (true, false,
        false, true, true, true, true, false)), (String ((Ascii (true, true,
        true, false, true, true, true, false)), (String ((Ascii (true, true,
        true, true, false, true, true, false)), (String ((Ascii (false, true,
        false, false, true, true, true, false)), (String ((Ascii (false,
        false, true, false, false, true, true, false)), (String ((Ascii
        (false, false, false, false, false, true, false, false)), (String
        ((Ascii (false, false, true, false, false, false, true, false)),
        (String ((Ascii (true, false, true, false, false, false, true,
        false)), (String ((Ascii (false, false, true, true, false, false,
        true, false)), (String ((Ascii (true, false, true, false, false,
        false, true, false)), (String ((Ascii (false, false, true, false,
        true, false, true, false)), (String ((Ascii (true, false, true,
        false, false, false, true, false)),
        EmptyString)))))))))))))))))))))))))))))))))), (String ((Ascii
        (false, false, true, true, false, false, true, false)),
        EmptyString)))) :: [])))) :: []))) :: (((String ((Ascii (true, true,
    false, false, true, true, true, false)), (String ((Ascii (false, false,
    true, false, true, true, true, false)), (String ((Ascii (true, false,
    false, false, false, true, true, false)), (String ((Ascii (false, false,
    true, false, true, true, true, false)), (String ((Ascii (true, false,
    true, false, false, true, true, false)), (String ((Ascii (false, false,
    true, false, false, false, true, false)), (String ((Ascii (true, false,
    true, false, false, false, true, false)), (String ((Ascii (false, false,
    true, true, false, false, true, false)), EmptyString)))))))))))))))),
    (block ((SIf ((CByte (Npos (XI (XO (XI (XO (XO (XO XH)))))))),
      (block ((SSetStep st_stateDELE) :: (SRetNil :: []))),
      (block ((SRetErr ((String ((Ascii (true, false, false, true, false,
        true, true, false)), (String ((Ascii (false, true, true, true, false,
        true, true, false)), (String ((Ascii (false, false, false, false,
        false, true, false, false)), (String ((Ascii (true, true, false,
        true, false, true, true, false)), (String ((Ascii (true, false, true,
        false, false, true, true, false)), (String ((Ascii (true, false,
        false, true, true, true, true, false)), (String ((Ascii (true, true,
        true, false, true, true, true, false)), (String ((Ascii (true, true,
        true, true, false, true, true, false)), (String ((Ascii (false, true,
        false, false, true, true, true, false)), (String ((Ascii (false,
        false, true, false, false, true, true, false)), (String ((Ascii
        (false, false, false, false, false, true, false, false)), (String
        ((Ascii (false, false, true, false, false, false, true, false)),
        (String ((Ascii (true, false, true, false, false, false, true,
        false)), (String ((Ascii (false, false, true, true, false, false,
        true, false)), (String ((Ascii (true, false, true, false, false,
        false, true, false)), (String ((Ascii (false, false, true, false,
        true, false, true, false)), (String ((Ascii (true, false, true,
        false, false, false, true, false)),
        EmptyString)))))))))))))))))))))))))))))))))), (String ((Ascii (true,
        false, true, false, false, false, true, false)),
        EmptyString)))) :: [])))) :: []))) :: (((String ((Ascii (true, true,
    false, false, true, true, true, false)), (String ((Ascii (false, false,
    true, false, true, true, true, false)), (String ((Ascii (true, false,
    false, false, false, true, true, false)), (String ((Ascii (false, false,
    true, false, true, true, true, false)), (String ((Ascii (true, false,
    true, false, false, true, true, false)), (String ((Ascii (false, false,
    true, false, false, false, true, false)), (String ((Ascii (true, false,
    true, false, false, false, true, false)), (String ((Ascii (false, false,
    true, true, false, false, true, false)), (String ((Ascii (true, false,
    true, false, false, false, true, false)), EmptyString)))))))))))))))))),
    (block ((SIf ((CByte (Npos (XO (XO (XI (XO (XI (XO XH)))))))),
      (block ((SSetStep st_stateDELET) :: (SRetNil :: []))),
      (block ((SRetErr ((String ((Ascii (true, false, false, true, false,
        true, true, false)), (String ((Ascii (false, true, true, true, false,
        true, true, false)), (String ((Ascii (false, false, false, false,
        false, true, false, false)), (String ((Ascii (true, true, false,
        true, false, true, true, false)), (String ((Ascii (true, false, true,
        false, false, true, true, false)), (String ((Ascii (true, false,
        false, true, true, true, true, false)), (String ((Ascii (true, true,
        true, false, true, true, true, false)), (String ((Ascii (true, true,
        true, true, false, true, true, false)), (String ((Ascii (false, true,
        false, false, true, true, true, false)), (String ((Ascii (false,
        false, true, false, false, true, true, false)), (String ((Ascii
        (false, false, false, false, false, true, false, false)), (String
        ((Ascii (false, false, true, false, false, false, true, false)),
        (String ((Ascii (true, false, true, false, false, false, true,
        false)), (String ((Ascii (false, false, true, true, false, false,
        true, false)), (String ((Ascii (true, false, true, false, false,
        false, true, false)), (String ((Ascii (false, false, true, false,
        true, false, true, false)), (String ((Ascii (true, false, true,
        false, false, false, true, false)),
        EmptyString)))))))))))))))))))))))))))))))))), (String ((Ascii
        (false, false, true, false, true, false, true, false)),
        EmptyString)))) :: [])))) :: []))) :: (((String ((Ascii (true, true,
    false, false, true, true, true, false)), (String ((Ascii (false, false,
    true, false, true, true, true, false)), (String ((Ascii (true, false,
    false, false, false, true, true, false)), (String ((Ascii (false, false,
    true, false, true, true, true, false)), (String ((Ascii (true, false,
    true, false, false, true, true, false)), (String ((Ascii (false, false,
    true, false, false, false, true, false)), (String ((Ascii (true, false,
    true, false, false, false, true, false)), (String ((Ascii (false, false,
    true, true, false, false, true, false)), (String ((Ascii (true, false,
    true, false, false, false, true, false)), (String ((Ascii (false, false,
    true, false, true, false, true, false)), EmptyString)))))))))))))))))))),
    (block ((SIf ((CByte (Npos (XI (XO (XI (XO (XO (XO XH)))))))),
      (block ((SFound (KeywordEnd, Z0)) :: ((SPush
        st_stateExpectKeyword) :: ((SSetStep
        st_stateParameterOrAnnotation) :: (SRetNil :: []))))),
      (block ((SRetErr ((String ((Ascii (true, false, false, true, false,
        true, true, false)), (String ((Ascii (false, true, true, true, false,
        true, true, false)), (String ((Ascii (false, false, false, false,
        false, true, false, false)), (String ((Ascii (true, true, false,
        true, false, true, true, false)), (String ((Ascii (true, false, true,
        false, false, true, true, false)), (String ((Ascii (true, false,
        false, true, true, true, true, false)), (String ((Ascii (true, true,
        true, false, true, true, true, false)), (String ((Ascii (true, true,
        true, true, false, true, true, false)), (String ((Ascii (false, true,
        false, false, true, true, true, false)), (String ((Ascii (false,
        false, true, false, false, true, true, false)), (String ((Ascii
        (false, false, false, false, false, true, false, false)), (String
        ((Ascii (false, false, true, false, false, false, true, false)),
        (String ((Ascii (true, false, true, false, false, false, true,
        false)), (String ((Ascii (false, false, true, true, false, false,
        true, false)), (String ((Ascii (true, false, true, false, false,
        false, true, false)), (String ((Ascii (false, false, true, false,
        true, false, true, false)), (String ((Ascii (true, false, true,
        false, false, false, true, false)),
        EmptyString)))))))))))))))))))))))))))))))))), (String ((Ascii (true,
        false, true, false, false, false, true, false)),
        EmptyString)))) :: [])))) :: []))) :: (((String ((Ascii (true, true,
    false, false, true, true, true, false)), (String ((Ascii (false, false,
    true, false, true, true, true, false)), (String ((Ascii (true, false,
    false, false, false, true, true, false)), (String ((Ascii (false, false,
    true, false, true, true, true, false)), (String ((Ascii (true, false,
    true, false, false, true, true, false)), (String ((Ascii (false, false,
    true, false, false, false, true, false)), (String ((Ascii (true, false,
    true, false, false, true, true, false)), EmptyString)))))))))))))),
    (block ((SIf ((CByte (Npos (XI (XI (XO (XO (XI (XI XH)))))))),
      (block ((SSetStep st_stateDes) :: (SRetNil :: []))),
      (block ((SRetErr ((String ((Ascii (true, false, false, true, false,
        true, true, false)), (String ((Ascii (false, true, true, true, false,
        true, true, false)), (String ((Ascii (false, false, false, false,
        false, true, false, false)), (String ((Ascii (true, true, false,
        true, false, true, true, false)), (String ((Ascii (true, false, true,
        false, false, true, true, false)), (String ((Ascii (true, false,
        false, true, true, true, true, false)), (String ((Ascii (true, true,
        true, false, true, true, true, false)), (String ((Ascii (true, true,
        true, true, false, true, true, false)), (String ((Ascii (false, true,
        false, false, true, true, true, false)), (String ((Ascii (false,
        false, true, false, false, true, true, false)), (String ((Ascii
        (false, false, false, false, false, true, false, false)), (String
        ((Ascii (false, false, true, false, false, false, true, false)),
        (String ((Ascii (true, false, true, false, false, true, true,
        false)), (String ((Ascii (true, true, false, false, true, true, true,
        false)), (String ((Ascii (true, true, false, false, false, true,
        true, false)), (String ((Ascii (false, true, false, false, true,
        true, true, false)), (String ((Ascii (true, false, false, true,
        false, true, true, false)), (String ((Ascii (false, false, false,
        false, true, true, true, false)), (String ((Ascii (false, false,
        true, false, true, true, true, false)), (String ((Ascii (true, false,
        false, true, false, true, true, false)), (String ((Ascii (true, true,
        true, true, false, true, true, false)), (String ((Ascii (false, true,
        true, true, false, true, true, false)),
        EmptyString)))))))))))))))))))))))))))))))))))))))))))), (String
        ((Ascii (true, true, false, false, true, true, true, false)),
        EmptyString)))) :: [])))) :: []))) :: (((String ((Ascii (true, true,
    false, false, true, true, true, false)), (String ((Ascii (false, false,
    true, false, true, true, true, false)), (String ((Ascii (true, false,
    false, false, false, true, true, false)), (String ((Ascii (false, false,
    true, false, true, true, true, false)), (String ((Ascii (true, false,
    true, false, false, true, true, false)), (String ((Ascii (false, false,
    true, false, false, false, true, false)), (String ((Ascii (true, false,
    true, false, false, true, true, false)), (String ((Ascii (true, true,
    false, false, true, true, true, false)), EmptyString)))))))))))))))),
    (block ((SIf ((CByte (Npos (XI (XI (XO (XO (XO (XI XH)))))))),
      (block ((SSetStep st_stateDesc) :: (SRetNil :: []))),
      (block ((SRetErr ((String ((Ascii (true, false, false, true, false,
        true, true, false)), (String ((Ascii (false, true, true, true, false,
        true, true, false)), (String ((Ascii (false, false, false, false,
        false, true, false, false)), (String ((Ascii (true, true, false,
        true, false, true, true, false)), (String ((Ascii (true, false, true,
        false, false, true, true, false)), (String ((Ascii (true, false,
        false, true, true, true, true, false)), (String ((Ascii (true, true,
        true, false, true, true, true, false)), (String ((Ascii (true, true,
        true, true, false, true, true, false)), (String ((Ascii (false, true,
        false, false, true, true, true, false)), (String ((Ascii (false,
        false, true, false, false, true, true, false)), (String ((Ascii
        (false, false, false, false, false, true, false, false)), (String
        ((Ascii (false, false, true, false, false, false, true, false)),
        (String ((Ascii (true, false, true, false, false, true, true,
        false)), (String ((Ascii (true, true, false, false, true, true, true,
        false)), (String ((Ascii (true, true, false, false, false, true,
        true, false)), (String ((Ascii (false, true, false, false, true,
        true, true, false)), (String ((Ascii (true, false, false, true,
        false, true, true, false)), (String ((Ascii (false, false, false,
        false, true, true, true, false)), (String ((Ascii (false, false,
        true, false, true, true, true, false)), (String ((Ascii (true, false,
        false, true, false, true, true, false)), (String ((Ascii (true, true,
        true, true, false, true, true, false)), (String ((Ascii (false, true,
        true, true, false, true, true, false)),
        EmptyString)))))))))))))))))))))))))))))))))))))))))))), (String
        ((Ascii (true, true, false, false, false, true, true, false)),
        EmptyString)))) :: [])))) :: []))) :: (((String ((Ascii (true, true,
    false, false, true, true, true, false)), (String ((Ascii (false, false,
    true, false, true, true, true, false)), (String ((Ascii (true, false,
    false, false, false, true, true, false)), (String ((Ascii (false, false,
    true, false, true, true, true, false)), (String ((Ascii (true, false,
    true, false, false, true, true, false)), (String ((Ascii (false, false,
    true, false, false, false, true, false)), (String ((Ascii (true, false,
    true, false, false, true, true, false)), (String ((Ascii (true, true,
    false, false, true, true, true, false)), (String ((Ascii (true, true,
    false, false, false, true, true, false)), EmptyString)))))))))))))))))),
    (block ((SIf ((CByte (Npos (XO (XI (XO (XO (XI (XI XH)))))))),
      (block ((SSetStep st_stateDescr) :: (SRetNil :: []))),
      (block ((SRetErr ((String ((Ascii (true, false, false, true, false,
        true, true, false)), (String ((Ascii (false, true, true, true, false,
        true, true, false)), (String ((Ascii (false, false, false, false,
        false, true, false, false)), (String ((Ascii (true, true, false,
        true, false, true, true, false)), (String ((Ascii (true, false, true,
        false, false, true, true, false)), (String ((Ascii (true, false,
        false, true, true, true, true, false)), (String ((Ascii (true, true,
        true, false, true, true, true, false)), (String ((Ascii (true, true,
        true, true, false, true, true, false)), (String ((Ascii (false, true,
        false, false, true, true, true, false)), (String ((Ascii (false,
        false, true, false, false, true, true, false)), (String ((Ascii
        (false, false, false, false, false, true, false, false)), (String
        ((Ascii (false, false, true, false, false, false, true, false)),
        (String ((Ascii (true, false, true, false, false, true, true,
        false)), (String ((Ascii (true, true, false, false, true, true, true,
        false)), (String ((Ascii (true, true, false, false, false, true,
        true, false)), (String ((Ascii (false, true, false, false, true,
        true, true, false)), (String ((Ascii (true, false, false, true,
        false, true, true, false)), (String ((Ascii (false, false, false,
        false, true, true, true, false)), (String ((Ascii (false, false,
        true, false, true, true, true, false)), (String ((Ascii (true, false,
        false, true, false, true, true, false)), (String ((Ascii (true, true,
        true, true, false, true, true, false)), (String ((Ascii (false, true,
        true, true, false, true, true, false)),
        EmptyString)))))))))))))))))))))))))))))))))))))))))))), (String
        ((Ascii (false, true, false, false, true, true, true, false)),
        EmptyString)))) :: [])))) :: []))) :: (((String ((Ascii (true, true,
    false, false, true, true, true, false)), (String ((Ascii (false, false,
    true, false, true, true, true, false)), (String ((Ascii (true, false,
    false, false, false, true, true, false)), (String ((Ascii (false, false,
    true, false, true, true, true, false)), (String ((Ascii (true, false,
    true, false, false, true, true, false)), (String ((Ascii (false, false,
    true, false, false, false, true, false)), (String ((Ascii (true, false,
    true, false, false, true, true, false)), (String ((Ascii (true, true,
    false, false, true, true, true, false)), (String ((Ascii (true, true,
    false, false, false, true, true, false)), (String ((Ascii (false, true,
    false, false, true, true, true, false)), EmptyString)))))))))))))))))))),
    (block ((SIf ((CByte (Npos (XI (XO (XO (XI (XO (XI XH)))))))),
      (block ((SSetStep st_stateDescri) :: (SRetNil :: []))),
      (block ((SRetErr ((String ((Ascii (true, false, false, true, false,
        true, true, false)), (String ((Ascii (false, true, true, true, false,
        true, true, false)), (String ((Ascii (false, false, false, false,
        false, true, false, false)), (String ((Ascii (true, true, false,
        true, false, true, true, false)), (String ((Ascii (true, false, true,
        false, false, true, true, false)), (String ((Ascii (true, false,
        false, true, true, true, true, false)), (String ((Ascii (true, true,
        true, false, true, true, true, false)), (String ((Ascii (true, true,
        true, true, false, true, true, false)), (String ((Ascii (false, true,
        false, false, true, true, true, false)), (String ((Ascii (false,
        false, true, false, false, true, true, false)), (String ((Ascii
        (false, false, false, false, false, true, false, false)), (String
        ((Ascii (false, false, true, false, false, false, true, false)),
        (String ((Ascii (true, false, true, false, false, true, true,
        false)), (String ((Ascii (true, true, false, false, true, true, true,
        false)), (String ((Ascii (true, true, false, false, false, true,
        true, false)), (String ((Ascii (false, true, false, false, true,
        true, true, false)), (String ((Ascii (true, false, false, true,
        false, true, true, false)), (String ((Ascii (false, false, false,
        false, true, true, true, false)), (String ((Ascii (false, false,
        true, false, true, true, true, false)), (String ((Ascii (true, false,
        false, true, false, true, true, false)), (String ((Ascii (true, true,
        true, true, false, true, true, false)), (String ((Ascii (false, true,
        true, true, false, true, true, false)),
        EmptyString)))))))))))))))))))))))))))))))))))))))))))), (String
        ((Ascii (true, false, false, true, false, true, true, false)),
        EmptyString)))) :: [])))) :: []))) :: (((String ((Ascii (true, true,
    false, false, true, true, true, false)), (String ((Ascii (false, false,
    true, false, true, true, true, false)), (String ((Ascii (true, false,
    false, false, false, true, true, false)), (String ((Ascii (false, false,
    true, false, true, true, true, false)), (String ((Ascii (true, false,
    true, false, false, true, true, false)), (String ((Ascii (false, false,
    true, false, false, false, true, false)), (String ((Ascii (true, false,
    true, false, false, true, true, false)), (String ((Ascii (true, true,
    false, false, true, true, true, false)), (String ((Ascii (true, true,
    false, false, false, true, true, false)), (String ((Ascii (false, true,
    false, false, true, true, true, false)), (String ((Ascii (true, false,
    false, true, false, true, true, false)),
    EmptyString)))))))))))))))))))))),
    (block ((SIf ((CByte (Npos (XO (XO (XO (XO (XI (XI XH)))))))),
      (block ((SSetStep st_stateDescrip) :: (SRetNil :: []))),
      (block ((SRetErr ((String ((Ascii (true, false, false, true, false,
        true, true, false)), (String ((Ascii (false, true, true, true, false,
        true, true, false)), (String ((Ascii (false, false, false, false,
        false, true, false, false)), (String ((Ascii (true, true, false,
        true, false, true, true, false)), (String ((Ascii (true, false, true,
        false, false, true, true, false)), (String ((Ascii (true, false,
        false, true, true, true, true, false)), (String ((Ascii (true, true,
        true, false, true, true, true, false)), (String ((Ascii (true, true,
        true, true, false, true, true, false)), (String ((Ascii (false, true,
        false, false, true, true, true, false)), (String ((Ascii (false,
        false, true, false, false, true, true, false)), (String ((Ascii
        (false, false, false, false, false, true, false, false)), (String
        ((Ascii (false, false, true, false, false, false, true, false)),
        (String ((Ascii (true, false, true, false, false, true, true,
        false)), (String ((Ascii (true, true, false, false, true, true, true,
        false)), (String ((Ascii (true, true, false, false, false, true,
        true, false)), (String ((Ascii (false, true, false, false, true,
        true, true, false)), (String ((Ascii (true, false, false, true,
        false, true, true, false)), (String ((Ascii (false, false, false,
        false, true, true, true, false)), (String ((Ascii (false, false,
        true, false, true, true, true, false)), (String ((Ascii (true, false,
        false, true, false, true, true, false)), (String ((Ascii (true, true,
        true, true, false, true, true, false)), (String ((Ascii (false, true,
        true, true, false, true, true, false)),
        EmptyString)))))))))))))))))))))))))))))))))))))))))))), (String
        ((Ascii (false, false, false, false, true, true, true, false)),
        EmptyString)))) :: [])))) :: []))) :: (((String ((Ascii (true, true,
    false, false, true, true, true, false)), (String ((Ascii (false, false,
    true, false, true, true, true, false)), (String ((Ascii (true, false,
    false, false, false, true, true, false)), (String ((Ascii (false, false,
    true, false, true, true, true, false)), (String ((Ascii (true, false,
    true, false, false, true, true, false)), (String ((Ascii (false, false,
    true, false, false, false, true, false)), (String ((Ascii (true, false,
    true, false, false, true, true, false)), (String ((Ascii (true, true,
    false, false, true, true, true, false)), (String ((Ascii (true, true,
    false, false, false, true, true, false)), (String ((Ascii (false, true,
    false, false, true, true, true, false)), (String ((Ascii (true, false,
    false, true, false, true, true, false)), (String ((Ascii (false, false,
    false, false, true, true, true, false)),
    EmptyString)))))))))))))))))))))))),
    (block ((SIf ((CByte (Npos (XO (XO (XI (XO (XI (XI XH)))))))),
      (block ((SSetStep st_stateDescript) :: (SRetNil :: []))),
      (block ((SRetErr ((String ((Ascii (true, false, false, true, false,
        true, true, false)), (String ((Ascii (false, true, true, true, false,
        true, true, false)), (String ((Ascii (false, false, false, false,
        false, true, false, false)), (String ((Ascii (true, true, false,
        true, false, true, true, false)), (String ((Ascii (true, false, true,
        false, false, true, true, false)), (String ((Ascii (true, false,
        false, true, true, true, true, false)), (String ((Ascii (true, true,
        true, false, true, true, true, false)), (String ((Ascii (true, true,
        true, true, false, true, true, false)), (String ((Ascii (false, true,
        false, false, true, true, true, false)), (String ((Ascii (false,
        false, true, false, false, true, true, false)), (String ((Ascii
        (false, false, false, false, false, true, false, false)), (String
        ((Ascii (false, false, true, false, false, false, true, false)),
        (String ((Ascii (true, false, true, false, false, true, true,
        false)), (String ((Ascii (true, true, false, false, true, true, true,
        false)), (String ((Ascii (true, true, false, false, false, true,
        true, false)), (String ((Ascii (false, true, false, false, true,
        true, true, false)), (String ((Ascii (true, false, false, true,
        false, true, true, false)), (String ((Ascii (false, false, false,
        false, true, true, true, false)), (String ((Ascii (false, false,
        true, false, true, true, true, false)), (String ((Ascii (true, false,
        false, true, false, true, true, false)), (String ((Ascii (true, true,
        true, true, false, true, true, false)), (String ((Ascii (false, true,
        true, true, false, true, true, false)),
        EmptyString)))))))))))))))))))))))))))))))))))))))))))), (String
        ((Ascii (false, false, true, false, true, true, true, false)),
        EmptyString)))) :: [])))) :: []))) :: (((String ((Ascii (true, true,
    false, false, true, true, true, false)), (String ((Ascii (false, false,
    true, false, true, true, true, false)), (String ((Ascii (true, false,
    false, false, false, true, true, false)), (String ((Ascii (false, false,
    true, false, true, true, true, false)), (String ((Ascii (true, false,
    true, false, false, true, true, false)), (String ((Ascii (false, false,
    true, false, false, false, true, false)), (String ((Ascii (true, false,
    true, false, false, true, true, false)), (String ((Ascii (true, true,
    false, false, true, true, true, false)), (String ((Ascii (true, true,
    false, false, false, true, true, false)), (String ((Ascii (false, true,
    false, false, true, true, true, false)), (String ((Ascii (true, false,
    false, true, false, true, true, false)), (String ((Ascii (false, false,
    false, false, true, true, true, false)), (String ((Ascii (false, false,
    true, false, true, true, true, false)),
    EmptyString)))))))))))))))))))))))))),
    (block ((SIf ((CByte (Npos (XI (XO (XO (XI (XO (XI XH)))))))),
      (block ((SSetStep st_stateDescripti) :: (SRetNil :: []))),
      (block ((SRetErr ((String ((Ascii (true, false, false, true, false,
        true, true, false)), (String ((Ascii (false, true, true, true, false,
        true, true, false)), (String ((Ascii (false, false, false, false,
        false, true, false, false)), (String ((Ascii (true, true, false,
        true, false, true, true, false)), (String ((Ascii (true, false, true,
        false, false, true, true, false)), (String ((Ascii (true, false,
        false, true, true, true, true, false)), (String ((Ascii (true, true,
        true, false, true, true, true, false)), (String ((Ascii (true, true,
        true, true, false, true, true, false)), (String ((Ascii (false, true,
        false, false, true, true, true, false)), (String ((Ascii (false,
        false, true, false, false, true, true, false)), (String ((Ascii
        (false, false, false, false, false, true, false, false)), (String
        ((Ascii (false, false, true, false, false, false, true, false)),
        (String ((Ascii (true, false, true, false, false, true, true,
        false)), (String ((Ascii (true, true, false, false, true, true, true,
        false)), (String ((Ascii (true, true, false, false, false, true,
        true, false)), (String ((Ascii (false, true, false, false, true,
        true, true, false)), (String ((Ascii (true, false, false, true,
        false, true, true, false)), (String ((Ascii (false, false, false,
        false, true, true, true, false)), (String ((Ascii (false, false,
        true, false, true, true, true, false)), (String ((Ascii (true, false,
        false, true, false, true, true, false)), (String ((Ascii (true, true,
        true, true, false, true, true, false)), (String ((Ascii (false, true,
        true, true, false, true, true, false)),
        EmptyString)))))))))))))))))))))))))))))))))))))))))))), (String
        ((Ascii (true, false, false, true, false, true, true, false)),
        EmptyString)))) :: [])))) :: []))) :: (((String ((Ascii (true, true,
    false, false, true, true, true, false)), (String ((Ascii (false, false,
    true, false, true, true, true, false)), (String ((Ascii (true, false,
    false, false, false, true, true, false)), (String ((Ascii (false, false,
    true, false, true, true, true, false)), (String ((Ascii (true, false,
    true, false, false, true, true, false)), (String ((Ascii (false, false,
    true, false, false, false, true, false)), (String ((Ascii (true, false,
    true, false, false, true, true, false)), (String ((Ascii (true, true,
    false, false, true, true, true, false)), (String ((Ascii (true, true,
    false, false, false, true, true, false)), (String ((Ascii (false, true,
    false, false, true, true, true, false)), (String ((Ascii (true, false,
    false, true, false, true, true, false)), (String ((Ascii (false, false,
    false, false, true, true, true, false)), (String ((Ascii (false, false,
    true, false, true, true, true, false)), (String ((Ascii (true, false,
    false, true, false, true, true, false)),
    EmptyString)))))))))))))))))))))))))))),
    (block ((SIf ((CByte (Npos (XI (XI (XI (XI (XO (XI XH)))))))),
      (block ((SSetStep st_stateDescriptio) :: (SRetNil :: []))),
      (block ((SRetErr ((String ((Ascii (true, false, false, true, false,
        true, true, false)), (String ((Ascii (false, true, true, true, false,
        true, true, false)), (String ((Ascii (false, false, false, false,
        false, true, false, false)), (String ((Ascii (true, true, false,
        true, false, true, true, false)), (String ((Ascii (true, false, true,
        false, false, true, true, false)), (String ((Ascii (true, false,
        false, true, true, true, true, false)), (String ((Ascii (true, true,
        true, false, true, true, true, false)), (String ((Ascii (true, true,
        true, true, false, true, true, false)), (String ((Ascii (false, true,
        false, false, true, true, true, false)), (String ((Ascii (false,
        false, true, false, false, true, true, false)), (String ((Ascii
        (false, false, false, false, false, true, false, false)), (String
        ((Ascii (false, false, true, false, false, false, true, false)),
        (String ((Ascii (true, false, true, false, false, true, true,
        false)), (String ((Ascii (true, true, false, false, true, true, true,
        false)), (String ((Ascii (true, true, false, false, false, true,
        true, false)), (String ((Ascii (false, true, false, false, true,
        true, true, false)), (String ((Ascii (true, false, false, true,
        false, true, true, false)), (String ((Ascii (false, false, false,
        false, true, true, true, false)), (String ((Ascii (false, false,
        true, false, true, true, true, false)), (String ((Ascii (true, false,
        false, true, false, true, true, false)), (String ((Ascii (true, true,
        true, true, false, true, true, false)), (String ((Ascii (false, true,
        true, true, false, true, true, false)),
        EmptyString)))))))))))))))))))))))))))))))))))))))))))), (String
        ((Ascii (true, true, true, true, false, true, true, false)),
        EmptyString)))) :: [])))) :: []))) :: (((String ((Ascii (true, true,
    false, false, true, true, true, false)), (String ((Ascii (false, false,
    true, false, true, true, true, false)), (String ((Ascii (true, false,
    false, false, false, true, true, false)), (String ((Ascii (false, false,
    true, false, true, true, true, false)), (String ((Ascii (true, false,
    true, false, false, true, true, false)), (String ((Ascii (false, false,
    true, false, false, false, true, false)), (String ((Ascii (true, false,
    true, false, false, true, true, false)), (String ((Ascii (true, true,
    false, false, true, true, true, false)), (String ((Ascii (true, true,
    false, false, false, true, true, false)), (String ((Ascii (false, true,
    false, false, true, true, true, false)), (String ((Ascii (true, false,
    false, true, false, true, true, false)), (String ((Ascii (false, false,
    false, false, true, true, true, false)), (String ((Ascii (false, false,
    true, false, true, true, true, false)), (String ((Ascii (true, false,
    false, true, false, true, true, false)), (String ((Ascii (true, true,
    true, true, false, true, true, false)),
    EmptyString)))))))))))))))))))))))))))))),
    (block ((SIf ((CByte (Npos (XO (XI (XI (XI (XO (XI XH)))))))),
      (block ((SFound (KeywordEnd, Z0)) :: ((SPush
        st_stateDescriptionTextBeginStarter) :: ((SSetStep
        st_stateParameterOrAnnotation) :: (SRetNil :: []))))),
      (block ((SRetErr ((String ((Ascii (true, false, false, true, false,
        true, true, false)), (String ((Ascii (false, true, true, true, false,
        true, true, false)), (String ((Ascii (false, false, false, false,
        false, true, false, false)), (String ((Ascii (true, true, false,
        true, false, true, true, false)), (String ((Ascii (true, false, true,
        false, false, true, true, false)), (String ((Ascii (true, false,
        false, true, true, true, true, false)), (String ((Ascii (true, true,
        true, false, true, true, true, false)), (String ((Ascii (true, true,
        true, true, false, true, true, false)), (String ((Ascii (false, true,
        false, false, true, true, true, false)), (String ((Ascii (false,
        false, true, false, false, true, true, false)), (String ((Ascii
        (false, false, false, false, false, true, false, false)), (String
        ((Ascii (false, false, true, false, false, false, true, false)),
        (String ((Ascii (true, false, true, false, false, true, true,
        false)), (String ((Ascii (true, true, false, false, true, true, true,
        false)), (String ((Ascii (true, true, false, false, false, true,
        true, false)), (String ((Ascii (false, true, false, false, true,
        true, true, false)), (String ((Ascii (true, false, false, true,
        false, true, true, false)), (String ((Ascii (false, false, false,
        false, true, true, true, false)), (String ((Ascii (false, false,
        true, false, true, true, true, false)), (String ((Ascii (true, false,
        false, true, false, true, true, false)), (String ((Ascii (true, true,
        true, true, false, true, true, false)), (String ((Ascii (false, true,
        true, true, false, true, true, false)),
        EmptyString)))))))))))))))))))))))))))))))))))))))))))), (String
        ((Ascii (false, true, true, true, false, true, true, false)),
        EmptyString)))) :: [])))) :: []))) :: (((String ((Ascii (true, true,
    false, false, true, true, true, false)), (String ((Ascii (false, false,
    true, false, true, true, true, false)), (String ((Ascii (true, false,
    false, false, false, true, true, false)), (String ((Ascii (false, false,
    true, false, true, true, true, false)), (String ((Ascii (true, false,
    true, false, false, true, true, false)), (String ((Ascii (false, false,
    true, false, false, false, true, false)), (String ((Ascii (true, false,
    true, false, false, true, true, false)), (String ((Ascii (true, true,
    false, false, true, true, true, false)), (String ((Ascii (true, true,
    false, false, false, true, true, false)), (String ((Ascii (false, true,
    false, false, true, true, true, false)), (String ((Ascii (true, false,
    false, true, false, true, true, false)), (String ((Ascii (false, false,
    false, false, true, true, true, false)), (String ((Ascii (false, false,
    true, false, true, true, true, false)), (String ((Ascii (true, false,
    false, true, false, true, true, false)), (String ((Ascii (true, true,
    true, true, false, true, true, false)), (String ((Ascii (false, true,
    true, true, false, true, true, false)), (String ((Ascii (false, false,
    true, false, true, false, true, false)), (String ((Ascii (true, false,
    true, false, false, true, true, false)), (String ((Ascii (false, false,
    false, true, true, true, true, false)), (String ((Ascii (false, false,
    true, false, true, true, true, false)),
    EmptyString)))))))))))))))))))))))))))))))))))))))),
    (block ((SIf (CNewLine,
      (block ((SSetStep st_stateDescriptionTextNewline) :: (SRetNil :: []))),
      (block ((SIf ((CByte N0),
        (block ((SFound (TextEnd, (Zneg XH))) :: (SRetNil :: []))),
        (block (SRetNil :: [])))) :: [])))) :: []))) :: (((String ((Ascii
    (true, true, false, false, true, true, true, false)), (String ((Ascii
    (false, false, true, false, true, true, true, false)), (String ((Ascii
    (true, false, false, false, false, true, true, false)), (String ((Ascii
    (false, false, true, false, true, true, true, false)), (String ((Ascii
    (true, false, true, false, false, true, true, false)), (String ((Ascii
    (false, false, true, false, false, false, true, false)), (String ((Ascii
    (true, false, true, false, false, true, true, false)), (String ((Ascii
    (true, true, false, false, true, true, true, false)), (String ((Ascii
    (true, true, false, false, false, true, true, false)), (String ((Ascii
    (false, true, false, false, true, true, true, false)), (String ((Ascii
    (true, false, false, true, false, true, true, false)), (String ((Ascii
    (false, false, false, false, true, true, true, false)), (String ((Ascii
    (false, false, true, false, true, true, true, false)), (String ((Ascii
    (true, false, false, true, false, true, true, false)), (String ((Ascii
    (true, true, true, true, false, true, true, false)), (String ((Ascii
    (false, true, true, true, false, true, true, false)), (String ((Ascii
    (false, false, true, false, true, false, true, false)), (String ((Ascii
    (true, false, true, false, false, true, true, false)), (String ((Ascii
    (false, false, false, true, true, true, true, false)), (String ((Ascii
    (false, false, true, false, true, true, true, false)), (String ((Ascii
    (false, true, false, false, false, false, true, false)), (String ((Ascii
    (true, false, true, false, false, true, true, false)), (String ((Ascii
    (true, true, true, false, false, true, true, false)), (String ((Ascii
    (true, false, false, true, false, true, true, false)), (String ((Ascii
    (false, true, true, true, false, true, true, false)),
    EmptyString)))))))))))))))))))))))))))))))))))))))))))))))))),
    (block ((SIf ((COr (CNewLine, CWhitespace)), (block (SRetNil :: [])),
      (block ((SIf ((CByte N0),
        (block ((SFound (TextEnd, (Zneg XH))) :: (SRetNil :: []))),
        (block ((SIf ((CByte (Npos (XO (XO (XO (XI (XO XH))))))),
          (block ((SSetStep
            st_stateDescriptionTextBracketsInner) :: (SRetNil :: []))),
          (block ((SSetStep st_stateDescriptionTextNewline) :: ((SRetCall
            st_stateDescriptionTextNewline) :: []))))) :: [])))) :: [])))) :: []))) :: (((String
    ((Ascii (true, true, false, false, true, true, true, false)), (String
    ((Ascii (false, false, true, false, true, true, true, false)), (String
    ((Ascii (true, false, false, false, false, true, true, false)), (String
    ((Ascii (false, false, true, false, true, true, true, false)), (String
    ((Ascii (true, false, true, false, false, true, true, false)), (String
    ((Ascii (false, false, true, false, false, false, true, false)), (String
    ((Ascii (true, false, true, false, false, true, true, false)), (String
    ((Ascii (true, true, false, false, true, true, true, false)), (String
    ((Ascii (true, true, false, false, false, true, true, false)), (String
    ((Ascii (false, true, false, false, true, true, true, false)), (String
    ((Ascii (true, false, false, true, false, true, true, false)), (String
    ((Ascii (false, false, false, false, true, true, true, false)), (String
    ((Ascii (false, false, true, false, true, true, true, false)), (String
    ((Ascii (true, false, false, true, false, true, true, false)), (String
    ((Ascii (true, true, true, true, false, true, true, false)), (String
    ((Ascii (false, true, true, true, false, true, true, false)), (String
    ((Ascii (false, false, true, false, true, false, true, false)), (String
    ((Ascii (true, false, true, false, false, true, true, false)), (String
    ((Ascii (false, false, false, true, true, true, true, false)), (String
    ((Ascii (false, false, true, false, true, true, true, false)), (String
    ((Ascii (false, true, false, false, false, false, true, false)), (String
    ((Ascii (true, false, true, false, false, true, true, false)), (String
    ((Ascii (true, true, true, false, false, true, true, false)), (String
    ((Ascii (true, false, false, true, false, true, true, false)), (String
    ((Ascii (false, true, true, true, false, true, true, false)), (String
    ((Ascii (true, true, false, false, true, false, true, false)), (String
    ((Ascii (false, false, true, false, true, true, true, false)), (String
    ((Ascii (true, false, false, false, false, true, true, false)), (String
    ((Ascii (false, true, false, false, true, true, true, false)), (String
    ((Ascii (false, false, true, false, true, true, true, false)), (String
    ((Ascii (true, false, true, false, false, true, true, false)), (String
    ((Ascii (false, true, false, false, true, true, true, false)),
    EmptyString)))))))))))))))))))))))))))))))))))))))))))))))))))))))))))))))),
    (block ((SFound (TextBegin, Z0)) :: ((SSetStep
      st_stateDescriptionTextBegin) :: ((SRetCall
      st_stateDescriptionTextBegin) :: []))))) :: (((String ((Ascii (true,
    true, false, false, true, true, true, false)), (String ((Ascii (false,
    false, true, false, true, true, true, false)), (String ((Ascii (true,
    false, false, false, false, true, true, false)), (String ((Ascii (false,
    false, true, false, true, true, true, false)), (String ((Ascii (true,
    false, true, false, false, true, true, false)), (String ((Ascii (false,
    false, true, false, false, false, true, false)), (String ((Ascii (true,
    false, true, false, false, true, true, false)), (String ((Ascii (true,
    true, false, false, true, true, true, false)), (String ((Ascii (true,
    true, false, false, false, true, true, false)), (String ((Ascii (false,
    true, false, false, true, true, true, false)), (String ((Ascii (true,
    false, false, true, false, true, true, false)), (String ((Ascii (false,
    false, false, false, true, true, true, false)), (String ((Ascii (false,
    false, true, false, true, true, true, false)), (String ((Ascii (true,
    false, false, true, false, true, true, false)), (String ((Ascii (true,
    true, true, true, false, true, true, false)), (String ((Ascii (false,
    true, true, true, false, true, true, false)), (String ((Ascii (false,
    false, true, false, true, false, true, false)), (String ((Ascii (true,
    false, true, false, false, true, true, false)), (String ((Ascii (false,
    false, false, true, true, true, true, false)), (String ((Ascii (false,
    false, true, false, true, true, true, false)), (String ((Ascii (false,
    true, false, false, false, false, true, false)), (String ((Ascii (false,
    true, false, false, true, true, true, false)), (String ((Ascii (true,
    false, false, false, false, true, true, false)), (String ((Ascii (true,
    true, false, false, false, true, true, false)), (String ((Ascii (true,
    true, false, true, false, true, true, false)), (String ((Ascii (true,
    false, true, false, false, true, true, false)), (String ((Ascii (false,
    false, true, false, true, true, true, false)), (String ((Ascii (true,
    true, false, false, true, true, true, false)), (String ((Ascii (true,
    false, false, true, false, false, true, false)), (String ((Ascii (false,
    true, true, true, false, true, true, false)), (String ((Ascii (false,
    true, true, true, false, true, true, false)), (String ((Ascii (true,
    false, true, false, false, true, true, false)), (String ((Ascii (false,
    true, false, false, true, true, true, false)),
    EmptyString)))))))))))))))))))))))))))))))))))))))))))))))))))))))))))))))))),
    (block ((SIf (CNewLine,
      (block ((SSetStep st_stateDescriptionTextBracketsInnerNewLine) :: [])),
      SSkip)) :: (SRetNil :: [])))) :: (((String ((Ascii (true, true, false,
    false, true, true, true, false)), (String ((Ascii (false, false, true,
    false, true, true, true, false)), (String ((Ascii (true, false, false,
    false, false, true, true, false)), (String ((Ascii (false, false, true,
    false, true, true, true, false)), (String ((Ascii (true, false, true,
    false, false, true, true, false)), (String ((Ascii (false, false, true,
    false, false, false, true, false)), (String ((Ascii (true, false, true,
    false, false, true, true, false)), (String ((Ascii (true, true, false,
    false, true, true, true, false)), (String ((Ascii (true, true, false,
    false, false, true, true, false)), (String ((Ascii (false, true, false,
    false, true, true, true, false)), (String ((Ascii (true, false, false,
    true, false, true, true, false)), (String ((Ascii (false, false, false,
    false, true, true, true, false)), (String ((Ascii (false, false, true,
    false, true, true, true, false)), (String ((Ascii (true, false, false,
    true, false, true, true, false)), (String ((Ascii (true, true, true,
    true, false, true, true, false)), (String ((Ascii (false, true, true,
    true, false, true, true, false)), (String ((Ascii (false, false, true,
    false, true, false, true, false)), (String ((Ascii (true, false, true,
    false, false, true, true, false)), (String ((Ascii (false, false, false,
    true, true, true, true, false)), (String ((Ascii (false, false, true,
    false, true, true, true, false)), (String ((Ascii (false, true, false,
    false, false, false, true, false)), (String ((Ascii (false, true, false,
    false, true, true, true, false)), (String ((Ascii (true, false, false,
    false, false, true, true, false)), (String ((Ascii (true, true, false,
    false, false, true, true, false)), (String ((Ascii (true, true, false,
    true, false, true, true, false)), (String ((Ascii (true, false, true,
    false, false, true, true, false)), (String ((Ascii (false, false, true,
    false, true, true, true, false)), (String ((Ascii (true, true, false,
    false, true, true, true, false)), (String ((Ascii (true, false, false,
    true, false, false, true, false)), (String ((Ascii (false, true, true,
    true, false, true, true, false)), (String ((Ascii (false, true, true,
    true, false, true, true, false)), (String ((Ascii (true, false, true,
    false, false, true, true, false)), (String ((Ascii (false, true, false,
    false, true, true, true, false)), (String ((Ascii (false, true, true,
    true, false, false, true, false)), (String ((Ascii (true, false, true,
    false, false, true, true, false)), (String ((Ascii (true, true, true,
    false, true, true, true, false)), (String ((Ascii (false, false, true,
    true, false, false, true, false)), (String ((Ascii (true, false, false,
    true, false, true, true, false)), (String ((Ascii (false, true, true,
    true, false, true, true, false)), (String ((Ascii (true, false, true,
    false, false, true, true, false)),
    EmptyString)))))))))))))))))))))))))))))))))))))))))))))))))))))))))))))))))))))))))))))))),
    (block ((SIf ((COr (CWhitespace, CNewLine)), (block (SRetNil :: [])),
      (block ((SIf ((CByte (Npos (XI (XO (XO (XI (XO XH))))))),
        (block ((SFound (TextEnd, Z0)) :: ((SSetStep
          st_stateExpectKeyword) :: (SRetNil :: [])))),
        (block ((SSetStep
          st_stateDescriptionTextBracketsInner) :: (SRetNil :: []))))) :: [])))) :: []))) :: (((String
    ((Ascii (true, true, false, false, true, true, true, false)), (String
    ((Ascii (false, false, true, false, true, true, true, false)), (String
    ((Ascii (true, false, false, false, false, true, true, false)), (String
    ((Ascii (false, false, true, false, true, true, true, false)), (String
    ((Ascii (true, false, true, false, false, true, true, false)), (String
    ((Ascii (false, false, true, false, false, false, true, false)), (String
    ((Ascii (true, false, true, false, false, true, true, false)), (String
    ((Ascii (true, true, false, false, true, true, true, false)), (String
    ((Ascii (true, true, false, false, false, true, true, false)), (String
    ((Ascii (false, true, false, false, true, true, true, false)), (String
    ((Ascii (true, false, false, true, false, true, true, false)), (String
    ((Ascii (false, false, false, false, true, true, true, false)), (String
    ((Ascii (false, false, true, false, true, true, true, false)), (String
    ((Ascii (true, false, false, true, false, true, true, false)), (String
    ((Ascii (true, true, true, true, false, true, true, false)), (String
    ((Ascii (false, true, true, true, false, true, true, false)), (String
    ((Ascii (false, false, true, false, true, false, true, false)), (String
    ((Ascii (true, false, true, false, false, true, true, false)), (String
    ((Ascii (false, false, false, true, true, true, true, false)), (String
    ((Ascii (false, false, true, false, true, true, true, false)), (String
    ((Ascii (false, true, true, true, false, false, true, false)), (String
    ((Ascii (true, false, true, false, false, true, true, false)), (String
    ((Ascii (true, true, true, false, true, true, true, false)), (String
    ((Ascii (false, false, true, true, false, true, true, false)), (String
    ((Ascii (true, false, false, true, false, true, true, false)), (String
    ((Ascii (false, true, true, true, false, true, true, false)), (String
    ((Ascii (true, false, true, false, false, true, true, false)),
    EmptyString)))))))))))))))))))))))))))))))))))))))))))))))))))))),
    (block ((SIf ((COr (CWhitespace, CNewLine)), (block (SRetNil :: [])),
      (block ((SIf ((CByte N0),
        (block ((SFound (TextEnd, (Zneg XH))) :: (SRetNil :: []))),
        (block ((SIf ((CCtx QIsDirective),
          (block ((SFound (TextEnd, (Zneg XH))) :: ((SSetStep
            st_stateExpectKeyword) :: ((SAddCur (Zneg
            XH)) :: (SRetNil :: []))))),
          (block ((SIf ((CByte (Npos (XI (XO (XO (XI (XO XH))))))),
            (block ((SFound (TextEnd, (Zneg XH))) :: ((SFound (ContextClose,
              Z0)) :: ((SSetStep
              st_stateExpectKeyword) :: (SRetNil :: []))))),
            (block ((SSetStep st_stateDescriptionText) :: (SRetNil :: []))))) :: [])))) :: [])))) :: [])))) :: []))) :: (((String
    ((Ascii (true, true, false, false, true, true, true, false)), (String
    ((Ascii (false, false, true, false, true, true, true, false)), (String
    ((Ascii (true, false, false, false, false, true, true, false)), (String
    ((Ascii (false, false, true, false, true, true, true, false)), (String
    ((Ascii (true, false, true, false, false, true, true, false)), (String
    ((Ascii (true, false, true, false, false, false, true, false)),
    EmptyString)))))))))))),
    (block ((SIf ((CByte (Npos (XO (XI (XI (XI (XO (XO XH)))))))),
      (block ((SSetStep st_stateEN) :: (SRetNil :: []))),
      (block ((SRetErr ((String ((Ascii (true, false, false, true, false,
        true, true, false)), (String ((Ascii (false, true, true, true, false,
        true, true, false)), (String ((Ascii (false, false, false, false,
        false, true, false, false)), (String ((Ascii (true, true, false,
        true, false, true, true, false)), (String ((Ascii (true, false, true,
        false, false, true, true, false)), (String ((Ascii (true, false,
        false, true, true, true, true, false)), (String ((Ascii (true, true,
        true, false, true, true, true, false)), (String ((Ascii (true, true,
        true, true, false, true, true, false)), (String ((Ascii (false, true,
        false, false, true, true, true, false)), (String ((Ascii (false,
        false, true, false, false, true, true, false)), (String ((Ascii
        (false, false, false, false, false, true, false, false)), (String
        ((Ascii (true, false, true, false, false, false, true, false)),
        (String ((Ascii (false, true, true, true, false, false, true,
        false)), (String ((Ascii (true, false, true, false, true, false,
        true, false)), (String ((Ascii (true, false, true, true, false,
        false, true, false)), EmptyString)))))))))))))))))))))))))))))),
        (String ((Ascii (false, true, true, true, false, false, true,
        false)), EmptyString)))) :: [])))) :: []))) :: (((String ((Ascii
    (true, true, false, false, true, true, true, false)), (String ((Ascii
    (false, false, true, false, true, true, true, false)), (String ((Ascii
    (true, false, false, false, false, true, true, false)), (String ((Ascii
    (false, false, true, false, true, true, true, false)), (String ((Ascii
    (true, false, true, false, false, true, true, false)), (String ((Ascii
    (true, false, true, false, false, false, true, false)), (String ((Ascii
    (false, true, true, true, false, false, true, false)),
    EmptyString)))))))))))))),
    (block ((SIf ((CByte (Npos (XI (XO (XI (XO (XI (XO XH)))))))),
      (block ((SSetStep st_stateENU) :: (SRetNil :: []))),
      (block ((SRetErr ((String ((Ascii (true, false, false, true, false,
        true, true, false)), (String ((Ascii (false, true, true, true, false,
        true, true, false)), (String ((Ascii (false, false, false, false,
        false, true, false, false)), (String ((Ascii (true, true, false,
        true, false, true, true, false)), (String ((Ascii (true, false, true,
        false, false, true, true, false)), (String ((Ascii (true, false,
        false, true, true, true, true, false)), (String ((Ascii (true, true,
        true, false, true, true, true, false)), (String ((Ascii (true, true,
        true, true, false, true, true, false)), (String ((Ascii (false, true,
        false, false, true, true, true, false)), (String ((Ascii (false,
        false, true, false, false, true, true, false)), (String ((Ascii
        (false, false, false, false, false, true, false, false)), (String
        ((Ascii (true, false, true, false, false, false, true, false)),
        (String ((Ascii (false, true, true, true, false, false, true,
        false)), (String ((Ascii (true, false, true, false, true, false,
        true, false)), (String ((Ascii (true, false, true, true, false,
        false, true, false)), EmptyString)))))))))))))))))))))))))))))),
        (String ((Ascii (true, false, true, false, true, false, true,
        false)), EmptyString)))) :: [])))) :: []))) :: (((String ((Ascii
    (true, true, false, false, true, true, true, false)), (String ((Ascii
    (false, false, true, false, true, true, true, false)), (String ((Ascii
    (true, false, false, false, false, true, true, false)), (String ((Ascii
    (false, false, true, false, true, true, true, false)), (String ((Ascii
    (true, false, true, false, false, true, true, false)), (String ((Ascii
    (true, false, true, false, false, false, true, false)), (String ((Ascii
    (false, true, true, true, false, false, true, false)), (String ((Ascii
    (true, false, true, false, true, false, true, false)),
    EmptyString)))))))))))))))),
    (block ((SIf ((CByte (Npos (XI (XO (XI (XI (XO (XO XH)))))))),
      (block ((SFound (KeywordEnd, Z0)) :: ((SPush
        st_stateEnumBody) :: ((SSetStep
        st_stateParameterOrAnnotation) :: (SRetNil :: []))))),
      (block ((SRetErr ((String ((Ascii (true, false, false, true, false,
        true, true, false)), (String ((Ascii (false, true, true, true, false,
        true, true, false)), (String ((Ascii (false, false, false, false,
        false, true, false, false)), (String ((Ascii (true, true, false,
        true, false, true, true, false)), (String ((Ascii (true, false, true,
        false, false, true, true, false)), (String ((Ascii (true, false,
        false, true, true, true, true, false)), (String ((Ascii (true, true,
        true, false, true, true, true, false)), (String ((Ascii (true, true,
        true, true, false, true, true, false)), (String ((Ascii (false, true,
        false, false, true, true, true, false)), (String ((Ascii (false,
        false, true, false, false, true, true, false)), (String ((Ascii
        (false, false, false, false, false, true, false, false)), (String
        ((Ascii (true, false, true, false, false, false, true, false)),
        (String ((Ascii (false, true, true, true, false, false, true,
        false)), (String ((Ascii (true, false, true, false, true, false,
        true, false)), (String ((Ascii (true, false, true, true, false,
        false, true, false)), EmptyString)))))))))))))))))))))))))))))),
        (String ((Ascii (true, false, true, true, false, false, true,
        false)), EmptyString)))) :: [])))) :: []))) :: (((String ((Ascii
    (true, true, false, false, true, true, true, false)), (String ((Ascii
    (false, false, true, false, true, true, true, false)), (String ((Ascii
    (true, false, false, false, false, true, true, false)), (String ((Ascii
    (false, false, true, false, true, true, true, false)), (String ((Ascii
    (true, false, true, false, false, true, true, false)), (String ((Ascii
    (true, false, true, false, false, false, true, false)), (String ((Ascii
    (false, true, true, true, false, true, true, false)), (String ((Ascii
    (true, false, true, false, true, true, true, false)), (String ((Ascii
    (true, false, true, true, false, true, true, false)), (String ((Ascii
    (false, true, false, false, false, false, true, false)), (String ((Ascii
    (true, true, true, true, false, true, true, false)), (String ((Ascii
    (false, false, true, false, false, true, true, false)), (String ((Ascii
    (true, false, false, true, true, true, true, false)),
    EmptyString)))))))))))))))))))))))))),
    (block ((SIf ((CByte (Npos (XO (XO (XO (XI (XO XH))))))),
      (block ((SFound (ContextOpen, Z0)) :: (SRetNil :: []))),
      (block ((SIf ((COr (CWhitespace, CNewLine)), (block (SRetNil :: [])),
        (block ((SIf ((CByte (Npos (XI (XI (XO (XO (XO XH))))))),
          (block (SPushCur :: ((SSetStep
            st_stateCommentStarted) :: (SRetNil :: [])))),
          (block ((SIf ((CByte (Npos (XI (XI (XO (XI (XI (XO XH)))))))),
            (block ((SFound (EnumBegin, Z0)) :: ((SOracle
              OEnum) :: ((SSetStep
              st_stateEnumBodyClose) :: (SRetNil :: []))))),
            (block ((SRetErr ((String ((Ascii (true, false, false, false,
              false, true, true, false)), (String ((Ascii (false, true, true,
              false, false, true, true, false)), (String ((Ascii (false,
              false, true, false, true, true, true, false)), (String ((Ascii
              (true, false, true, false, false, true, true, false)), (String
              ((Ascii (false, true, false, false, true, true, true, false)),
              (String ((Ascii (false, false, false, false, false, true,
              false, false)), (String ((Ascii (true, false, true, false,
              false, false, true, false)), (String ((Ascii (false, true,
              true, true, false, true, true, false)), (String ((Ascii (true,
              false, true, false, true, true, true, false)), (String ((Ascii
              (true, false, true, true, false, true, true, false)), (String
              ((Ascii (false, false, false, false, false, true, false,
              false)), (String ((Ascii (false, false, true, false, false,
              true, true, false)), (String ((Ascii (true, false, false, true,
              false, true, true, false)), (String ((Ascii (false, true,
              false, false, true, true, true, false)), (String ((Ascii (true,
              false, true, false, false, true, true, false)), (String ((Ascii
              (true, true, false, false, false, true, true, false)), (String
              ((Ascii (false, false, true, false, true, true, true, false)),
              (String ((Ascii (true, false, false, true, false, true, true,
              false)), (String ((Ascii (false, true, true, false, true, true,
              true, false)), (String ((Ascii (true, false, true, false,
              false, true, true, false)),
              EmptyString)))))))))))))))))))))))))))))))))))))))),
              EmptyString)) :: [])))) :: [])))) :: [])))) :: [])))) :: []))) :: (((String
    ((Ascii (true, true, false, false, true, true, true, false)), (String
    ((Ascii (false, false, true, false, true, true, true, false)), (String
    ((Ascii (true, false, false, false, false, true, true, false)), (String
    ((Ascii (false, false, true, false, true, true, true, false)), (String
    ((Ascii (true, false, true, false, false, true, true, false)), (String
    ((Ascii (true, false, true, false, false, false, true, false)), (String
    ((Ascii (false, true, true, true, false, true, true, false)), (String
    ((Ascii (true, false, true, false, true, true, true, false)), (String
    ((Ascii (true, false, true, true, false, true, true, false)), (String
    ((Ascii (false, true, false, false, false, false, true, false)), (String
    ((Ascii (true, true, true, true, false, true, true, false)), (String
    ((Ascii (false, false, true, false, false, true, true, false)), (String
    ((Ascii (true, false, false, true, true, true, true, false)), (String
    ((Ascii (true, true, false, false, false, false, true, false)), (String
    ((Ascii (false, false, true, true, false, true, true, false)), (String
    ((Ascii (true, true, true, true, false, true, true, false)), (String
    ((Ascii (true, true, false, false, true, true, true, false)), (String
    ((Ascii (true, false, true, false, false, true, true, false)),
    EmptyString)))))))))))))))))))))))))))))))))))),
    (block ((SIf (CWhitespace,
      (block ((SFound (EnumEnd, (Zneg XH))) :: ((SSetStep
        st_stateEnumBodyEnded) :: (SRetNil :: [])))),
      (block ((SIf ((COr (CNewLine, (CByte N0))),
        (block ((SFound (EnumEnd, (Zneg XH))) :: ((SSetStep
          st_stateExpectKeyword) :: (SRetNil :: [])))),
        (block ((SRetErr ((String ((Ascii (true, false, false, false, false,
          true, true, false)), (String ((Ascii (false, true, true, false,
          false, true, true, false)), (String ((Ascii (false, false, true,
          false, true, true, true, false)), (String ((Ascii (true, false,
          true, false, false, true, true, false)), (String ((Ascii (false,
          true, false, false, true, true, true, false)), (String ((Ascii
          (false, false, false, false, false, true, false, false)), (String
          ((Ascii (true, false, true, false, false, true, true, false)),
          (String ((Ascii (false, true, true, true, false, true, true,
          false)), (String ((Ascii (true, false, true, false, true, true,
          true, false)), (String ((Ascii (true, false, true, true, false,
          true, true, false)), EmptyString)))))))))))))))))))),
          EmptyString)) :: [])))) :: [])))) :: []))) :: (((String ((Ascii
    (true, true, false, false, true, true, true, false)), (String ((Ascii
    (false, false, true, false, true, true, true, false)), (String ((Ascii
    (true, false, false, false, false, true, true, false)), (String ((Ascii
    (false, false, true, false, true, true, true, false)), (String ((Ascii
    (true, false, true, false, false, true, true, false)), (String ((Ascii
    (true, false, true, false, false, false, true, false)), (String ((Ascii
    (false, true, true, true, false, true, true, false)), (String ((Ascii
    (true, false, true, false, true, true, true, false)), (String ((Ascii
    (true, false, true, true, false, true, true, false)), (String ((Ascii
    (false, true, false, false, false, false, true, false)), (String ((Ascii
    (true, true, true, true, false, true, true, false)), (String ((Ascii
    (false, false, true, false, false, true, true, false)), (String ((Ascii
    (true, false, false, true, true, true, true, false)), (String ((Ascii
    (true, false, true, false, false, false, true, false)), (String ((Ascii
    (false, true, true, true, false, true, true, false)), (String ((Ascii
    (false, false, true, false, false, true, true, false)), (String ((Ascii
    (true, false, true, false, false, true, true, false)), (String ((Ascii
    (false, false, true, false, false, true, true, false)),
    EmptyString)))))))))))))))))))))))))))))))))))),
    (block ((SIf (CWhitespace, (block (SRetNil :: [])),
      (block ((SIf ((COr (CNewLine, (CByte N0))),
        (block ((SSetStep st_stateExpectKeyword) :: (SRetNil :: []))),
        (block ((SIf ((CByte (Npos (XI (XI (XO (XO (XO XH))))))),
          (block (SPushCur :: ((SSetStep
            st_stateCommentStarted) :: (SRetNil :: [])))),
          (block ((SRetErr ((String ((Ascii (true, false, false, false,
            false, true, true, false)), (String ((Ascii (false, true, true,
            false, false, true, true, false)), (String ((Ascii (false, false,
            true, false, true, true, true, false)), (String ((Ascii (true,
            false, true, false, false, true, true, false)), (String ((Ascii
            (false, true, false, false, true, true, true, false)), (String
            ((Ascii (false, false, false, false, false, true, false, false)),
            (String ((Ascii (true, false, true, false, false, true, true,
            false)), (String ((Ascii (false, true, true, true, false, true,
            true, false)), (String ((Ascii (true, false, true, false, true,
            true, true, false)), (String ((Ascii (true, false, true, true,
            false, true, true, false)), (String ((Ascii (false, false, false,
            false, false, true, false, false)), (String ((Ascii (false, true,
            false, false, false, true, true, false)), (String ((Ascii (true,
            true, true, true, false, true, true, false)), (String ((Ascii
            (false, false, true, false, false, true, true, false)), (String
            ((Ascii (true, false, false, true, true, true, true, false)),
            EmptyString)))))))))))))))))))))))))))))), EmptyString)) :: [])))) :: [])))) :: [])))) :: []))) :: (((String
    ((Ascii (true, true, false, false, true, true, true, false)), (String
    ((Ascii (false, false, true, false, true, true, true, false)), (String
    ((Ascii (true, false, false, false, false, true, true, false)), (String
    ((Ascii (false, false, true, false, true, true, true, false)), (String
    ((Ascii (true, false, true, false, false, true, true, false)), (String
    ((Ascii (true, false, true, false, false, false, true, false)), (String
    ((Ascii (false, false, false, true, true, true, true, false)), (String
    ((Ascii (false, false, false, false, true, true, true, false)), (String
    ((Ascii (true, false, true, false, false, true, true, false)), (String
    ((Ascii (true, true, false, false, false, true, true, false)), (String
    ((Ascii (false, false, true, false, true, true, true, false)), (String
    ((Ascii (true, true, false, true, false, false, true, false)), (String
    ((Ascii (true, false, true, false, false, true, true, false)), (String
    ((Ascii (true, false, false, true, true, true, true, false)), (String
    ((Ascii (true, true, true, false, true, true, true, false)), (String
    ((Ascii (true, true, true, true, false, true, true, false)), (String
    ((Ascii (false, true, false, false, true, true, true, false)), (String
    ((Ascii (false, false, true, false, false, true, true, false)),
    EmptyString)))))))))))))))))))))))))))))))))))),
    (block ((SIf ((COr (CNewLine, (COr (CWhitespace, (CByte N0))))),
      (block (SRetNil :: [])),
      (block ((SIf ((CByte (Npos (XI (XI (XO (XO (XO XH))))))),
        (block (SPushCur :: ((SSetStep
          st_stateCommentStarted) :: (SRetNil :: [])))),
        (block ((SIf ((CByte (Npos (XO (XO (XO (XI (XO XH))))))),
          (block ((SFound (ContextOpen, Z0)) :: ((SSetStep
            st_stateContextOpenedOnNewline) :: (SRetNil :: [])))),
          (block ((SIf ((CByte (Npos (XI (XO (XO (XI (XO XH))))))),
            (block ((SFound (ContextClose, Z0)) :: ((SSetStep
              st_stateContextClosed) :: (SRetNil :: [])))),
            (block ((SIf ((CByte (Npos (XO (XI (XO (XO (XO (XO XH)))))))),
              (block ((SFound (KeywordBegin, Z0)) :: ((SSetStep
                st_stateB) :: (SRetNil :: [])))),
              (block ((SIf ((CByte (Npos (XO (XO (XI (XO (XO (XO XH)))))))),
                (block ((SFound (KeywordBegin, Z0)) :: ((SSetStep
                  st_stateD) :: (SRetNil :: [])))),
                (block ((SIf ((CByte (Npos (XI (XO (XI (XO (XO (XO
                  XH)))))))),
                  (block ((SFound (KeywordBegin, Z0)) :: ((SSetStep
                    st_stateE) :: (SRetNil :: [])))),
                  (block ((SIf ((CByte (Npos (XI (XI (XI (XO (XO (XO
                    XH)))))))),
                    (block ((SFound (KeywordBegin, Z0)) :: ((SSetStep
                      st_stateG) :: (SRetNil :: [])))),
                    (block ((SIf ((CByte (Npos (XO (XO (XO (XI (XO (XO
                      XH)))))))),
                      (block ((SFound (KeywordBegin, Z0)) :: ((SSetStep
                        st_stateH) :: (SRetNil :: [])))),
                      (block ((SIf ((CByte (Npos (XI (XO (XO (XI (XO (XO
                        XH)))))))),
                        (block ((SFound (KeywordBegin, Z0)) :: ((SSetStep
                          st_stateI) :: (SRetNil :: [])))),
                        (block ((SIf ((CByte (Npos (XO (XI (XO (XI (XO (XO
                          XH)))))))),
                          (block ((SFound (KeywordBegin, Z0)) :: ((SSetStep
                            st_stateJ) :: (SRetNil :: [])))),
                          (block ((SIf ((CByte (Npos (XI (XO (XI (XI (XO (XO
                            XH)))))))),
                            (block ((SFound (KeywordBegin, Z0)) :: ((SSetStep
                              st_stateM) :: (SRetNil :: [])))),
                            (block ((SIf ((CByte (Npos (XI (XI (XI (XI (XO
                              (XO XH)))))))),
                              (block ((SFound (KeywordBegin,
                                Z0)) :: ((SSetStep
                                st_stateO) :: (SRetNil :: [])))),
                              (block ((SIf ((CByte (Npos (XO (XO (XO (XO (XI
                                (XO XH)))))))),
                                (block ((SFound (KeywordBegin,
                                  Z0)) :: ((SSetStep
                                  st_stateP) :: (SRetNil :: [])))),
                                (block ((SIf ((CByte (Npos (XI (XO (XO (XO
                                  (XI (XO XH)))))))),
                                  (block ((SFound (KeywordBegin,
                                    Z0)) :: ((SSetStep
                                    st_stateQ) :: (SRetNil :: [])))),
                                  (block ((SIf ((CByte (Npos (XO (XI (XO (XO
                                    (XI (XO XH)))))))),
                                    (block ((SFound (KeywordBegin,
                                      Z0)) :: ((SSetStep
                                      st_stateR) :: (SRetNil :: [])))),
                                    (block ((SIf ((CByte (Npos (XI (XI (XO
                                      (XO (XI (XO XH)))))))),
                                      (block ((SFound (KeywordBegin,
                                        Z0)) :: ((SSetStep
                                        st_stateS) :: (SRetNil :: [])))),
                                      (block ((SIf ((CByte (Npos (XO (XO (XI
                                        (XO (XI (XO XH)))))))),
                                        (block ((SFound (KeywordBegin,
                                          Z0)) :: ((SSetStep
                                          st_stateT) :: (SRetNil :: [])))),
                                        (block ((SIf ((CByte (Npos (XI (XO
                                          (XI (XO (XI (XO XH)))))))),
                                          (block ((SFound (KeywordBegin,
                                            Z0)) :: ((SSetStep
                                            st_stateU) :: (SRetNil :: [])))),
                                          (block ((SIf ((CByte (Npos (XO (XI
                                            (XI (XO (XI (XO XH)))))))),
                                            (block ((SFound (KeywordBegin,
                                              Z0)) :: ((SSetStep
                                              st_stateV) :: (SRetNil :: [])))),
                                            (block ((SIf ((COr ((CByte (Npos
                                              (XI (XO (XO (XO (XI XH))))))),
                                              (COr ((CByte (Npos (XO (XI (XO
                                              (XO (XI XH))))))), (COr ((CByte
                                              (Npos (XI (XI (XO (XO (XI
                                              XH))))))), (COr ((CByte (Npos
                                              (XO (XO (XI (XO (XI XH))))))),
                                              (CByte (Npos (XI (XO (XI (XO
                                              (XI XH))))))))))))))),
                                              (block ((SFound (KeywordBegin,
                                                Z0)) :: ((SSetStep
                                                st_stateResponseKeywordStarted) :: (SRetNil :: [])))),
                                              SSkip)) :: [])))) :: [])))) :: [])))) :: [])))) :: [])))) :: [])))) :: [])))) :: [])))) :: [])))) :: [])))) :: [])))) :: [])))) :: [])))) :: [])))) :: [])))) :: [])))) :: [])))) :: [])))) :: [])))) :: [])))) :: ((SRetErr
      ((String ((Ascii (true, false, false, false, false, true, true,
      false)), (String ((Ascii (false, false, true, false, true, true, true,
      false)), (String ((Ascii (false, false, false, false, false, true,
      false, false)), (String ((Ascii (false, false, true, false, true, true,
      true, false)), (String ((Ascii (false, false, false, true, false, true,
      true, false)), (String ((Ascii (true, false, true, false, false, true,
      true, false)), (String ((Ascii (false, false, false, false, false,
      true, false, false)), (String ((Ascii (false, false, true, false,
      false, true, true, false)), (String ((Ascii (true, false, false, true,
      false, true, true, false)), (String ((Ascii (false, true, false, false,
      true, true, true, false)), (String ((Ascii (true, false, true, false,
      false, true, true, false)), (String ((Ascii (true, true, false, false,
      false, true, true, false)), (String ((Ascii (false, false, true, false,
      true, true, true, false)), (String ((Ascii (true, false, false, true,
      false, true, true, false)), (String ((Ascii (false, true, true, false,
      true, true, true, false)), (String ((Ascii (true, false, true, false,
      false, true, true, false)), (String ((Ascii (false, false, false,
      false, false, true, false, false)), (String ((Ascii (false, true,
      false, false, false, true, true, false)), (String ((Ascii (true, false,
      true, false, false, true, true, false)), (String ((Ascii (true, true,
      true, false, false, true, true, false)), (String ((Ascii (true, false,
      false, true, false, true, true, false)), (String ((Ascii (false, true,
      true, true, false, true, true, false)), (String ((Ascii (false, true,
      true, true, false, true, true, false)), (String ((Ascii (true, false,
      false, true, false, true, true, false)), (String ((Ascii (false, true,
      true, true, false, true, true, false)), (String ((Ascii (true, true,
      true, false, false, true, true, false)),
      EmptyString)))))))))))))))))))))))))))))))))))))))))))))))))))),
      EmptyString)) :: [])))) :: (((String ((Ascii (true, true, false, false,
    true, true, true, false)), (String ((Ascii (false, false, true, false,
    true, true, true, false)), (String ((Ascii (true, false, false, false,
    false, true, true, false)), (String ((Ascii (false, false, true, false,
    true, true, true, false)), (String ((Ascii (true, false, true, false,
    false, true, true, false)), (String ((Ascii (true, true, true, false,
    false, false, true, false)), EmptyString)))))))))))),
    (block ((SIf ((CByte (Npos (XI (XO (XI (XO (XO (XO XH)))))))),
      (block ((SSetStep st_stateGE) :: (SRetNil :: []))),
      (block ((SRetErr ((String ((Ascii (true, false, false, true, false,
        true, true, false)), (String ((Ascii (false, true, true, true, false,
        true, true, false)), (String ((Ascii (false, false, false, false,
        false, true, false, false)), (String ((Ascii (true, true, false,
        true, false, true, true, false)), (String ((Ascii (true, false, true,
        false, false, true, true, false)), (String ((Ascii (true, false,
        false, true, true, true, true, false)), (String ((Ascii (true, true,
        true, false, true, true, true, false)), (String ((Ascii (true, true,
        true, true, false, true, true, false)), (String ((Ascii (false, true,
        false, false, true, true, true, false)), (String ((Ascii (false,
        false, true, false, false, true, true, false)), (String ((Ascii
        (false, false, false, false, false, true, false, false)), (String
        ((Ascii (true, true, true, false, false, false, true, false)),
        (String ((Ascii (true, false, true, false, false, false, true,
        false)), (String ((Ascii (false, false, true, false, true, false,
        true, false)), EmptyString)))))))))))))))))))))))))))), (String
        ((Ascii (true, false, true, false, false, false, true, false)),
        EmptyString)))) :: [])))) :: []))) :: (((String ((Ascii (true, true,
    false, false, true, true, true, false)), (String ((Ascii (false, false,
    true, false, true, true, true, false)), (String ((Ascii (true, false,
    false, false, false, true, true, false)), (String ((Ascii (false, false,
    true, false, true, true, true, false)), (String ((Ascii (true, false,
    true, false, false, true, true, false)), (String ((Ascii (true, true,
    true, false, false, false, true, false)), (String ((Ascii (true, false,
    true, false, false, false, true, false)), EmptyString)))))))))))))),
    (block ((SIf ((CByte (Npos (XO (XO (XI (XO (XI (XO XH)))))))),
      (block ((SFound (KeywordEnd, Z0)) :: ((SPush
        st_stateExpectKeyword) :: ((SSetStep
        st_stateParameterOrAnnotation) :: (SRetNil :: []))))),
      (block ((SRetErr ((String ((Ascii (true, false, false, true, false,
        true, true, false)), (String ((Ascii (false, true, true, true, false,
        true, true, false)), (String ((Ascii (false, false, false, false,
        false, true, false, false)), (String ((Ascii (true, true, false,
        true, false, true, true, false)), (String ((Ascii (true, false, true,
        false, false, true, true, false)), (String ((Ascii (true, false,
        false, true, true, true, true, false)), (String ((Ascii (true, true,
        true, false, true, true, true, false)), (String ((Ascii (true, true,
        true, true, false, true, true, false)), (String ((Ascii (false, true,
        false, false, true, true, true, false)), (String ((Ascii (false,
        false, true, false, false, true, true, false)), (String ((Ascii
        (false, false, false, false, false, true, false, false)), (String
        ((Ascii (true, true, true, false, false, false, true, false)),
        (String ((Ascii (true, false, true, false, false, false, true,
        false)), (String ((Ascii (false, false, true, false, true, false,
        true, false)), EmptyString)))))))))))))))))))))))))))), (String
        ((Ascii (false, false, true, false, true, false, true, false)),
        EmptyString)))) :: [])))) :: []))) :: (((String ((Ascii (true, true,
    false, false, true, true, true, false)), (String ((Ascii (false, false,
    true, false, true, true, true, false)), (String ((Ascii (true, false,
    false, false, false, true, true, false)), (String ((Ascii (false, false,
    true, false, true, true, true, false)), (String ((Ascii (true, false,
    true, false, false, true, true, false)), (String ((Ascii (false, false,
    false, true, false, false, true, false)), EmptyString)))))))))))),
    (block ((SIf ((CByte (Npos (XI (XO (XI (XO (XO (XI XH)))))))),
      (block ((SSetStep st_stateHe) :: (SRetNil :: []))),
      (block ((SRetErr ((String ((Ascii (true, false, false, true, false,
        true, true, false)), (String ((Ascii (false, true, true, true, false,
        true, true, false)), (String ((Ascii (false, false, false, false,
        false, true, false, false)), (String ((Ascii (false, false, true,
        false, false, true, true, false)), (String ((Ascii (true, false,
        false, true, false, true, true, false)), (String ((Ascii (false,
        true, false, false, true, true, true, false)), (String ((Ascii (true,
        false, true, false, false, true, true, false)), (String ((Ascii
        (true, true, false, false, false, true, true, false)), (String
        ((Ascii (false, false, true, false, true, true, true, false)),
        (String ((Ascii (true, false, false, true, false, true, true,
        false)), (String ((Ascii (false, true, true, false, true, true, true,
        false)), (String ((Ascii (true, false, true, false, false, true,
        true, false)), (String ((Ascii (false, false, false, false, false,
        true, false, false)), (String ((Ascii (false, false, false, true,
        false, false, true, false)), (String ((Ascii (true, false, true,
        false, false, true, true, false)), (String ((Ascii (true, false,
        false, false, false, true, true, false)), (String ((Ascii (false,
        false, true, false, false, true, true, false)), (String ((Ascii
        (true, false, true, false, false, true, true, false)), (String
        ((Ascii (false, true, false, false, true, true, true, false)),
        (String ((Ascii (true, true, false, false, true, true, true, false)),
        EmptyString)))))))))))))))))))))))))))))))))))))))), (String ((Ascii
        (true, false, true, false, false, true, true, false)),
        EmptyString)))) :: [])))) :: []))) :: (((String ((Ascii (true, true,
    false, false, true, true, true, false)), (String ((Ascii (false, false,
    true, false, true, true, true, false)), (String ((Ascii (true, false,
    false, false, false, true, true, false)), (String ((Ascii (false, false,
    true, false, true, true, true, false)), (String ((Ascii (true, false,
    true, false, false, true, true, false)), (String ((Ascii (false, false,
    false, true, false, false, true, false)), (String ((Ascii (true, false,
    true, false, false, true, true, false)), EmptyString)))))))))))))),
    (block ((SIf ((CByte (Npos (XI (XO (XO (XO (XO (XI XH)))))))),
      (block ((SSetStep st_stateHea) :: (SRetNil :: []))),
      (block ((SRetErr ((String ((Ascii (true, false, false, true, false,
        true, true, false)), (String ((Ascii (false, true, true, true, false,
        true, true, false)), (String ((Ascii (false, false, false, false,
        false, true, false, false)), (String ((Ascii (false, false, true,
        false, false, true, true, false)), (String ((Ascii (true, false,
        false, true, false, true, true, false)), (String ((Ascii (false,
        true, false, false, true, true, true, false)), (String ((Ascii (true,
        false, true, false, false, true, true, false)), (String ((Ascii
        (true, true, false, false, false, true, true, false)), (String
        ((Ascii (false, false, true, false, true, true, true, false)),
        (String ((Ascii (true, false, false, true, false, true, true,
        false)), (String ((Ascii (false, true, true, false, true, true, true,
        false)), (String ((Ascii (true, false, true, false, false, true,
        true, false)), (String ((Ascii (false, false, false, false, false,
        true, false, false)), (String ((Ascii (false, false, false, true,
        false, false, true, false)), (String ((Ascii (true, false, true,
        false, false, true, true, false)), (String ((Ascii (true, false,
        false, false, false, true, true, false)), (String ((Ascii (false,
        false, true, false, false, true, true, false)), (String ((Ascii
        (true, false, true, false, false, true, true, false)), (String
        ((Ascii (false, true, false, false, true, true, true, false)),
        (String ((Ascii (true, true, false, false, true, true, true, false)),
        EmptyString)))))))))))))))))))))))))))))))))))))))), (String ((Ascii
        (true, false, false, false, false, true, true, false)),
        EmptyString)))) :: [])))) :: []))) :: (((String ((Ascii (true, true,
    false, false, true, true, true, false)), (String ((Ascii (false, false,
    true, false, true, true, true, false)), (String ((Ascii (true, false,
    false, false, false, true, true, false)), (String ((Ascii (false, false,
    true, false, true, true, true, false)), (String ((Ascii (true, false,
    true, false, false, true, true, false)), (String ((Ascii (false, false,
    false, true, false, false, true, false)), (String ((Ascii (true, false,
    true, false, false, true, true, false)), (String ((Ascii (true, false,
    false, false, false, true, true, false)), EmptyString)))))))))))))))),
    (block ((SIf ((CByte (Npos (XO (XO (XI (XO (XO (XI XH)))))))),
      (block ((SSetStep st_stateHead) :: (SRetNil :: []))),
      (block ((SRetErr ((String ((Ascii (true, false, false, true, false,
        true, true, false)), (String ((Ascii (false, true, true, true, false,
        true, true, false)), (String ((Ascii (false, false, false, false,
        false, true, false, false)), (String ((Ascii (false, false, true,
        false, false, true, true, false)), (String ((Ascii (true, false,
        false, true, false, true, true, false)), (String ((Ascii (false,
        true, false, false, true, true, true, false)), (String ((Ascii (true,
        false, true, false, false, true, true, false)), (String ((Ascii
        (true, true, false, false, false, true, true, false)), (String
        ((Ascii (false, false, true, false, true, true, true, false)),
        (String ((Ascii (true, false, false, true, false, true, true,
        false)), (String ((Ascii (false, true, true, false, true, true, true,
        false)), (String ((Ascii (true, false, true, false, false, true,
        true, false)), (String ((Ascii (false, false, false, false, false,
        true, false, false)), (String ((Ascii (false, false, false, true,
        false, false, true, false)), (String ((Ascii (true, false, true,
        false, false, true, true, false)), (String ((Ascii (true, false,
        false, false, false, true, true, false)), (String ((Ascii (false,
        false, true, false, false, true, true, false)), (String ((Ascii
        (true, false, true, false, false, true, true, false)), (String
        ((Ascii (false, true, false, false, true, true, true, false)),
        (String ((Ascii (true, true, false, false, true, true, true, false)),
        EmptyString)))))))))))))))))))))))))))))))))))))))), (String ((Ascii
        (false, false, true, false, false, true, true, false)),
        EmptyString)))) :: [])))) :: []))) :: (((String ((Ascii (true, true,
    false, false, true, true, true, false)), (String ((Ascii (false, false,
    true, false, true, true, true, false)), (String ((Ascii (true, false,
    false, false, false, true, true, false)), (String ((Ascii (false, false,
    true, false, true, true, true, false)), (String ((Ascii (true, false,
    true, false, false, true, true, false)), (String ((Ascii (false, false,
    false, true, false, false, true, false)), (String ((Ascii (true, false,
    true, false, false, true, true, false)), (String ((Ascii (true, false,
    false, false, false, true, true, false)), (String ((Ascii (false, false,
    true, false, false, true, true, false)), EmptyString)))))))))))))))))),
    (block ((SIf ((CByte (Npos (XI (XO (XI (XO (XO (XI XH)))))))),
      (block ((SSetStep st_stateHeade) :: (SRetNil :: []))),
      (block ((SRetErr ((String ((Ascii (true, false, false, true, false,
        true, true, false)), (String ((Ascii (false, true, true, true, false,
        true, true, false)), (String ((Ascii (false, false, false, false,
        false, true, false, false)), (String ((Ascii (false, false, true,
        false, false, true, true, false)), (String ((Ascii (true, false,
        false, true, false, true, true, false)), (String ((Ascii (false,
        true, false, false, true, true, true, false)), (String ((Ascii (true,
        false, true, false, false, true, true, false)), (String ((Ascii
        (true, true, false, false, false, true, true, false)), (String
        ((Ascii (false, false, true, false, true, true, true, false)),
        (String ((Ascii (true, false, false, true, false, true, true,
        false)), (String ((Ascii (false, true, true, false, true, true, true,
        false)), (String ((Ascii (true, false, true, false, false, true,
        true, false)), (String ((Ascii (false, false, false, false, false,
        true, false, false)), (String ((Ascii (false, false, false, true,
        false, false, true, false)), (String ((Ascii (true, false, true,
        false, false, true, true, false)), (String ((Ascii (true, false,
        false, false, false, true, true, false)), (String ((Ascii (false,
        false, true, false, false, true, true, false)), (String ((Ascii
        (true, false, true, false, false, true, true, false)), (String
        ((Ascii (false, true, false, false, true, true, true, false)),
        (String ((Ascii (true, true, false, false, true, true, true, false)),
        EmptyString)))))))))))))))))))))))))))))))))))))))), (String ((Ascii
        (true, false, true, false, false, true, true, false)),
        EmptyString)))) :: [])))) :: []))) :: (((String ((Ascii (true, true,
    false, false, true, true, true, false)), (String ((Ascii (false, false,
    true, false, true, true, true, false)), (String ((Ascii (true, false,
    false, false, false, true, true, false)), (String ((Ascii (false, false,
    true, false, true, true, true, false)), (String ((Ascii (true, false,
    true, false, false, true, true, false)), (String ((Ascii (false, false,
    false, true, false, false, true, false)), (String ((Ascii (true, false,
    true, false, false, true, true, false)), (String ((Ascii (true, false,
    false, false, false, true, true, false)), (String ((Ascii (false, false,
    true, false, false, true, true, false)), (String ((Ascii (true, false,
    true, false, false, true, true, false)), EmptyString)))))))))))))))))))),
    (block ((SIf ((CByte (Npos (XO (XI (XO (XO (XI (XI XH)))))))),
      (block ((SSetStep st_stateHeader) :: (SRetNil :: []))),
      (block ((SRetErr ((String ((Ascii (true, false, false, true, false,
        true, true, false)), (String ((Ascii (false, true, true, true, false,
        true, true, false)), (String ((Ascii (false, false, false, false,
        false, true, false, false)), (String ((Ascii (false, false, true,
        false, false, true, true, false)), (String ((Ascii (true, false,
        false, true, false, true, true, false)), (String ((Ascii (false,
        true, false, false, true, true, true, false)), (String ((Ascii (true,
        false, true, false, false, true, true, false)), (String ((Ascii
        (true, true, false, false, false, true, true, false)), (String
        ((Ascii (false, false, true, false, true, true, true, false)),
        (String ((Ascii (true, false, false, true, false, true, true,
        false)), (String ((Ascii (false, true, true, false, true, true, true,
        false)), (String ((Ascii (true, false, true, false, false, true,
        true, false)), (String ((Ascii (false, false, false, false, false,
        true, false, false)), (String ((Ascii (false, false, false, true,
        false, false, true, false)), (String ((Ascii (true, false, true,
        false, false, true, true, false)), (String ((Ascii (true, false,
        false, false, false, true, true, false)), (String ((Ascii (false,
        false, true, false, false, true, true, false)), (String ((Ascii
        (true, false, true, false, false, true, true, false)), (String
        ((Ascii (false, true, false, false, true, true, true, false)),
        (String ((Ascii (true, true, false, false, true, true, true, false)),
        EmptyString)))))))))))))))))))))))))))))))))))))))), (String ((Ascii
        (false, true, false, false, true, true, true, false)),
        EmptyString)))) :: [])))) :: []))) :: (((String ((Ascii (true, true,
    false, false, true, true, true, false)), (String ((Ascii (false, false,
    true, false, true, true, true, false)), (String ((Ascii (true, false,
    false, false, false, true, true, false)), (String ((Ascii (false, false,
    true, false, true, true, true, false)), (String ((Ascii (true, false,
    true, false, false, true, true, false)), (String ((Ascii (false, false,
    false, true, false, false, true, false)), (String ((Ascii (true, false,
    true, false, false, true, true, false)), (String ((Ascii (true, false,
    false, false, false, true, true, false)), (String ((Ascii (false, false,
    true, false, false, true, true, false)), (String ((Ascii (true, false,
    true, false, false, true, true, false)), (String ((Ascii (false, true,
    false, false, true, true, true, false)),
    EmptyString)))))))))))))))))))))),
    (block ((SIf ((CByte (Npos (XI (XI (XO (XO (XI (XI XH)))))))),
      (block ((SFound (KeywordEnd, Z0)) :: ((SPush
        st_stateHeaderBody) :: ((SSetStep
        st_stateParameterOrAnnotation) :: (SRetNil :: []))))),
      (block ((SRetErr ((String ((Ascii (true, false, false, true, false,
        true, true, false)), (String ((Ascii (false, true, true, true, false,
        true, true, false)), (String ((Ascii (false, false, false, false,
        false, true, false, false)), (String ((Ascii (false, false, true,
        false, false, true, true, false)), (String ((Ascii (true, false,
        false, true, false, true, true, false)), (String ((Ascii (false,
        true, false, false, true, true, true, false)), (String ((Ascii (true,
        false, true, false, false, true, true, false)), (String ((Ascii
        (true, true, false, false, false, true, true, false)), (String
        ((Ascii (false, false, true, false, true, true, true, false)),
        (String ((Ascii (true, false, false, true, false, true, true,
        false)), (String ((Ascii (false, true, true, false, true, true, true,
        false)), (String ((Ascii (true, false, true, false, false, true,
        true, false)), (String ((Ascii (false, false, false, false, false,
        true, false, false)), (String ((Ascii (false, false, false, true,
        false, false, true, false)), (String ((Ascii (true, false, true,
        false, false, true, true, false)), (String ((Ascii (true, false,
        false, false, false, true, true, false)), (String ((Ascii (false,
        false, true, false, false, true, true, false)), (String ((Ascii
        (true, false, true, false, false, true, true, false)), (String
        ((Ascii (false, true, false, false, true, true, true, false)),
        (String ((Ascii (true, true, false, false, true, true, true, false)),
        EmptyString)))))))))))))))))))))))))))))))))))))))), (String ((Ascii
        (true, true, false, false, true, true, true, false)),
        EmptyString)))) :: [])))) :: []))) :: (((String ((Ascii (true, true,
    false, false, true, true, true, false)), (String ((Ascii (false, false,
    true, false, true, true, true, false)), (String ((Ascii (true, false,
    false, false, false, true, true, false)), (String ((Ascii (false, false,
    true, false, true, true, true, false)), (String ((Ascii (true, false,
    true, false, false, true, true, false)), (String ((Ascii (false, false,
    false, true, false, false, true, false)), (String ((Ascii (true, false,
    true, false, false, true, true, false)), (String ((Ascii (true, false,
    false, false, false, true, true, false)), (String ((Ascii (false, false,
    true, false, false, true, true, false)), (String ((Ascii (true, false,
    true, false, false, true, true, false)), (String ((Ascii (false, true,
    false, false, true, true, true, false)), (String ((Ascii (false, true,
    false, false, false, false, true, false)), (String ((Ascii (true, true,
    true, true, false, true, true, false)), (String ((Ascii (false, false,
    true, false, false, true, true, false)), (String ((Ascii (true, false,
    false, true, true, true, true, false)),
    EmptyString)))))))))))))))))))))))))))))),
    (block ((SIf ((CByte (Npos (XO (XO (XO (XI (XO XH))))))),
      (block ((SFound (ContextOpen, Z0)) :: (SRetNil :: []))),
      (block ((SIf ((COr (CWhitespace, CNewLine)), (block (SRetNil :: [])),
        (block ((SIf ((CByte (Npos (XI (XI (XO (XO (XO XH))))))),
          (block (SPushCur :: ((SSetStep
            st_stateCommentStarted) :: (SRetNil :: [])))),
          (block ((SIf ((COr ((CByte (Npos (XI (XI (XO (XI (XI (XI
            XH)))))))), (CByte (Npos (XO (XO (XO (XO (XO (XO XH)))))))))),
            (block ((SRetCall st_stateJSchema) :: [])),
            (block ((SRetErr ((String ((Ascii (true, false, false, true,
              false, true, true, false)), (String ((Ascii (false, true, true,
              true, false, true, true, false)), (String ((Ascii (false,
              false, false, false, false, true, false, false)), (String
              ((Ascii (false, false, false, true, false, false, true,
              false)), (String ((Ascii (true, false, true, false, false,
              true, true, false)), (String ((Ascii (true, false, false,
              false, false, true, true, false)), (String ((Ascii (false,
              false, true, false, false, true, true, false)), (String ((Ascii
              (true, false, true, false, false, true, true, false)), (String
              ((Ascii (false, true, false, false, true, true, true, false)),
              (String ((Ascii (true, true, false, false, true, true, true,
              false)), (String ((Ascii (false, false, false, false, false,
              true, false, false)), (String ((Ascii (false, true, false,
              false, false, true, true, false)), (String ((Ascii (true, true,
              true, true, false, true, true, false)), (String ((Ascii (false,
              false, true, false, false, true, true, false)), (String ((Ascii
              (true, false, false, true, true, true, true, false)),
              EmptyString)))))))))))))))))))))))))))))),
              EmptyString)) :: [])))) :: [])))) :: [])))) :: [])))) :: []))) :: (((String
    ((Ascii (true, true, false, false, true, true, true, false)), (String
    ((Ascii (false, false, true, false, true, true, true, false)), (String
    ((Ascii (true, false, false, false, false, true, true, false)), (String
    ((Ascii (false, false, true, false, true, true, true, false)), (String
    ((Ascii (true, false, true, false, false, true, true, false)), (String
    ((Ascii (true, false, false, true, false, false, true, false)),
    EmptyString)))))))))))),
    (block ((SIf ((CNot (CByte (Npos (XO (XI (XI (XI (XO (XO XH))))))))),
      (block ((SRetErr ((String ((Ascii (true, false, false, true, false,
        true, true, false)), (String ((Ascii (false, true, true, true, false,
        true, true, false)), (String ((Ascii (false, false, false, false,
        false, true, false, false)), (String ((Ascii (true, true, false,
        true, false, true, true, false)), (String ((Ascii (true, false, true,
        false, false, true, true, false)), (String ((Ascii (true, false,
        false, true, true, true, true, false)), (String ((Ascii (true, true,
        true, false, true, true, true, false)), (String ((Ascii (true, true,
        true, true, false, true, true, false)), (String ((Ascii (false, true,
        false, false, true, true, true, false)), (String ((Ascii (false,
        false, true, false, false, true, true, false)), (String ((Ascii
        (false, false, false, false, false, true, false, false)), (String
        ((Ascii (true, false, false, true, false, false, true, false)),
        (String ((Ascii (false, true, true, true, false, false, true,
        false)), (String ((Ascii (false, true, true, false, false, false,
        true, false)), (String ((Ascii (true, true, true, true, false, false,
        true, false)), EmptyString)))))))))))))))))))))))))))))), (String
        ((Ascii (false, true, true, true, false, false, true, false)),
        EmptyString)))) :: [])), SSkip)) :: ((SSetStep
      st_stateIN) :: (SRetNil :: []))))) :: (((String ((Ascii (true, true,
    false, false, true, true, true, false)), (String ((Ascii (false, false,
    true, false, true, true, true, false)), (String ((Ascii (true, false,
    false, false, false, true, true, false)), (String ((Ascii (false, false,
    true, false, true, true, true, false)), (String ((Ascii (true, false,
    true, false, false, true, true, false)), (String ((Ascii (true, false,
    false, true, false, false, true, false)), (String ((Ascii (false, true,
    true, true, false, false, true, false)), EmptyString)))))))))))))),
    (block ((SIf ((CByte (Npos (XO (XI (XI (XO (XO (XO XH)))))))),
      (block ((SSetStep st_stateINF) :: [])),
      (block ((SIf ((CByte (Npos (XI (XI (XO (XO (XO (XO XH)))))))),
        (block ((SSetStep st_stateINC) :: [])),
        (block ((SRetErr ((String ((Ascii (true, false, false, true, false,
          true, true, false)), (String ((Ascii (false, true, true, true,
          false, true, true, false)), (String ((Ascii (false, false, false,
          false, false, true, false, false)), (String ((Ascii (true, true,
          false, true, false, true, true, false)), (String ((Ascii (true,
          false, true, false, false, true, true, false)), (String ((Ascii
          (true, false, false, true, true, true, true, false)), (String
          ((Ascii (true, true, true, false, true, true, true, false)),
          (String ((Ascii (true, true, true, true, false, true, true,
          false)), (String ((Ascii (false, true, false, false, true, true,
          true, false)), (String ((Ascii (false, false, true, false, false,
          true, true, false)), (String ((Ascii (false, false, false, false,
          false, true, false, false)), (String ((Ascii (true, false, false,
          true, false, false, true, false)), (String ((Ascii (false, true,
          true, true, false, false, true, false)), (String ((Ascii (false,
          true, true, false, false, false, true, false)), (String ((Ascii
          (true, true, true, true, false, false, true, false)),
          EmptyString)))))))))))))))))))))))))))))), (String ((Ascii (false,
          true, true, false, false, false, true, false)),
          EmptyString)))) :: [])))) :: [])))) :: (SRetNil :: [])))) :: (((String
    ((Ascii (true, true, false, false, true, true, true, false)), (String
    ((Ascii (false, false, true, false, true, true, true, false)), (String
    ((Ascii (true, false, false, false, false, true, true, false)), (String
    ((Ascii (false, false, true, false, true, true, true, false)), (String
    ((Ascii (true, false, true, false, false, true, true, false)), (String
    ((Ascii (true, false, false, true, false, false, true, false)), (String
    ((Ascii (false, true, true, true, false, false, true, false)), (String
    ((Ascii (true, true, false, false, false, false, true, false)),
    EmptyString)))))))))))))))),
    (block ((SIf ((CNot (CByte (Npos (XO (XO (XI (XI (XO (XO XH))))))))),
      (block ((SRetErr ((String ((Ascii (true, false, false, true, false,
        true, true, false)), (String ((Ascii (false, true, true, true, false,
        true, true, false)), (String ((Ascii (false, false, false, false,
        false, true, false, false)), (String ((Ascii (true, true, false,
        true, false, true, true, false)), (String ((Ascii (true, false, true,
        false, false, true, true, false)), (String ((Ascii (true, false,
        false, true, true, true, true, false)), (String ((Ascii (true, true,
        true, false, true, true, true, false)), (String ((Ascii (true, true,
        true, true, false, true, true, false)), (String ((Ascii (false, true,
        false, false, true, true, true, false)), (String ((Ascii (false,
        false, true, false, false, true, true, false)), (String ((Ascii
        (false, false, false, false, false, true, false, false)), (String
        ((Ascii (true, false, false, true, false, false, true, false)),
        (String ((Ascii (false, true, true, true, false, false, true,
        false)), (String ((Ascii (true, true, false, false, false, false,
        true, false)), (String ((Ascii (false, false, true, true, false,
        false, true, false)), (String ((Ascii (true, false, true, false,
        true, false, true, false)), (String ((Ascii (false, false, true,
        false, false, false, true, false)), (String ((Ascii (true, false,
        true, false, false, false, true, false)),
        EmptyString)))))))))))))))))))))))))))))))))))), (String ((Ascii
        (false, false, true, true, false, false, true, false)),
        EmptyString)))) :: [])), SSkip)) :: ((SSetStep
      st_stateINCL) :: (SRetNil :: []))))) :: (((String ((Ascii (true, true,
    false, false, true, true, true, false)), (String ((Ascii (false, false,
    true, false, true, true, true, false)), (String ((Ascii (true, false,
    false, false, false, true, true, false)), (String ((Ascii (false, false,
    true, false, true, true, true, false)), (String ((Ascii (true, false,
    true, false, false, true, true, false)), (String ((Ascii (true, false,
    false, true, false, false, true, false)), (String ((Ascii (false, true,
    true, true, false, false, true, false)), (String ((Ascii (true, true,
    false, false, false, false, true, false)), (String ((Ascii (false, false,
    true, true, false, false, true, false)), EmptyString)))))))))))))))))),
    (block ((SIf ((CNot (CByte (Npos (XI (XO (XI (XO (XI (XO XH))))))))),
      (block ((SRetErr ((String ((Ascii (true, false, false, true, false,
        true, true, false)), (String ((Ascii (false, true, true, true, false,
        true, true, false)), (String ((Ascii (false, false, false, false,
        false, true, false, false)), (String ((Ascii (true, true, false,
        true, false, true, true, false)), (String ((Ascii (true, false, true,
        false, false, true, true, false)), (String ((Ascii (true, false,
        false, true, true, true, true, false)), (String ((Ascii (true, true,
        true, false, true, true, true, false)), (String ((Ascii (true, true,
        true, true, false, true, true, false)), (String ((Ascii (false, true,
        false, false, true, true, true, false)), (String ((Ascii (false,
        false, true, false, false, true, true, false)), (String ((Ascii
        (false, false, false, false, false, true, false, false)), (String
        ((Ascii (true, false, false, true, false, false, true, false)),
        (String ((Ascii (false, true, true, true, false, false, true,
        false)), (String ((Ascii (true, true, false, false, false, false,
        true, false)), (String ((Ascii (false, false, true, true, false,
        false, true, false)), (String ((Ascii (true, false, true, false,
        true, false, true, false)), (String ((Ascii (false, false, true,
        false, false, false, true, false)), (String ((Ascii (true, false,
        true, false, false, false, true, false)),
        EmptyString)))))))))))))))))))))))))))))))))))), (String ((Ascii
        (true, false, true, false, true, false, true, false)),
        EmptyString)))) :: [])), SSkip)) :: ((SSetStep
      st_stateINCLU) :: (SRetNil :: []))))) :: (((String ((Ascii (true, true,
    false, false, true, true, true, false)), (String ((Ascii (false, false,
    true, false, true, true, true, false)), (String ((Ascii (true, false,
    false, false, false, true, true, false)), (String ((Ascii (false, false,
    true, false, true, true, true, false)), (String ((Ascii (true, false,
    true, false, false, true, true, false)), (String ((Ascii (true, false,
    false, true, false, false, true, false)), (String ((Ascii (false, true,
    true, true, false, false, true, false)), (String ((Ascii (true, true,
    false, false, false, false, true, false)), (String ((Ascii (false, false,
    true, true, false, false, true, false)), (String ((Ascii (true, false,
    true, false, true, false, true, false)), EmptyString)))))))))))))))))))),
    (block ((SIf ((CNot (CByte (Npos (XO (XO (XI (XO (XO (XO XH))))))))),
      (block ((SRetErr ((String ((Ascii (true, false, false, true, false,
        true, true, false)), (String ((Ascii (false, true, true, true, false,
        true, true, false)), (String ((Ascii (false, false, false, false,
        false, true, false, false)), (String ((Ascii (true, true, false,
        true, false, true, true, false)), (String ((Ascii (true, false, true,
        false, false, true, true, false)), (String ((Ascii (true, false,
        false, true, true, true, true, false)), (String ((Ascii (true, true,
        true, false, true, true, true, false)), (String ((Ascii (true, true,
        true, true, false, true, true, false)), (String ((Ascii (false, true,
        false, false, true, true, true, false)), (String ((Ascii (false,
        false, true, false, false, true, true, false)), (String ((Ascii
        (false, false, false, false, false, true, false, false)), (String
        ((Ascii (true, false, false, true, false, false, true, false)),
        (String ((Ascii (false, true, true, true, false, false, true,
        false)), (String ((Ascii (true, true, false, false, false, false,
        true, false)), (String ((Ascii (false, false, true, true, false,
        false, true, false)), (String ((Ascii (true, false, true, false,
        true, false, true, false)), (String ((Ascii (false, false, true,
        false, false, false, true, false)), (String ((Ascii (true, false,
        true, false, false, false, true, false)),
        EmptyString)))))))))))))))))))))))))))))))))))), (String ((Ascii
        (false, false, true, false, false, false, true, false)),
        EmptyString)))) :: [])), SSkip)) :: ((SSetStep
      st_stateINCLUD) :: (SRetNil :: []))))) :: (((String ((Ascii (true,
    true, false, false, true, true, true, false)), (String ((Ascii (false,
    false, true, false, true, true, true, false)), (String ((Ascii (true,
    false, false, false, false, true, true, false)), (String ((Ascii (false,
    false, true, false, true, true, true, false)), (String ((Ascii (true,
    false, true, false, false, true, true, false)), (String ((Ascii (true,
    false, false, true, false, false, true, false)), (String ((Ascii (false,
    true, true, true, false, false, true, false)), (String ((Ascii (true,
    true, false, false, false, false, true, false)), (String ((Ascii (false,
    false, true, true, false, false, true, false)), (String ((Ascii (true,
    false, true, false, true, false, true, false)), (String ((Ascii (false,
    false, true, false, false, false, true, false)),
    EmptyString)))))))))))))))))))))),
    (block ((SIf ((CNot (CByte (Npos (XI (XO (XI (XO (XO (XO XH))))))))),
      (block ((SRetErr ((String ((Ascii (true, false, false, true, false,
        true, true, false)), (String ((Ascii (false, true, true, true, false,
        true, true, false)), (String ((Ascii (false, false, false, false,
        false, true, false, false)), (String ((Ascii (true, true, false,
        true, false, true, true, false)), (String ((Ascii (true, false, true,
        false, false, true, true, false)), (String ((Ascii (true, false,
        false, true, true, true, true, false)), (String ((Ascii (true, true,
        true, false, true, true, true, false)), (String ((Ascii (true, true,
        true, true, false, true, true, false)), (String ((Ascii (false, true,
        false, false, true, true, true, false)), (String ((Ascii (false,
        false, true, false, false, true, true, false)), (String ((Ascii
        (false, false, false, false, false, true, false, false)), (String
        ((Ascii (true, false, false, true, false, false, true, false)),
        (String ((Ascii (false, true, true, true, false, false, true,
        false)), (String ((Ascii (true, true, false, false, false, false,
        true, false)), (String ((Ascii (false, false, true, true, false,
        false, true, false)), (String ((Ascii (true, false, true, false,
        true, false, true, false)), (String ((Ascii (false, false, true,
        false, false, false, true, false)), (String ((Ascii (true, false,
        true, false, false, false, true, false)),
        EmptyString)))))))))))))))))))))))))))))))))))), (String ((Ascii
        (true, false, true, false, false, false, true, false)),
        EmptyString)))) :: [])), SSkip)) :: ((SFound (KeywordEnd,
      Z0)) :: ((SPush st_stateExpectKeyword) :: ((SSetStep
      st_stateParameterOrAnnotation) :: (SRetNil :: []))))))) :: (((String
    ((Ascii (true, true, false, false, true, true, true, false)), (String
    ((Ascii (false, false, true, false, true, true, true, false)), (String
    ((Ascii (true, false, false, false, false, true, true, false)), (String
    ((Ascii (false, false, true, false, true, true, true, false)), (String
    ((Ascii (true, false, true, false, false, true, true, false)), (String
    ((Ascii (true, false, false, true, false, false, true, false)), (String
    ((Ascii (false, true, true, true, false, false, true, false)), (String
    ((Ascii (false, true, true, false, false, false, true, false)),
    EmptyString)))))))))))))))),
    (block ((SIf ((CNot (CByte (Npos (XI (XI (XI (XI (XO (XO XH))))))))),
      (block ((SRetErr ((String ((Ascii (true, false, false, true, false,
        true, true, false)), (String ((Ascii (false, true, true, true, false,
        true, true, false)), (String ((Ascii (false, false, false, false,
        false, true, false, false)), (String ((Ascii (true, true, false,
        true, false, true, true, false)), (String ((Ascii (true, false, true,
        false, false, true, true, false)), (String ((Ascii (true, false,
        false, true, true, true, true, false)), (String ((Ascii (true, true,
        true, false, true, true, true, false)), (String ((Ascii (true, true,
        true, true, false, true, true, false)), (String ((Ascii (false, true,
        false, false, true, true, true, false)), (String ((Ascii (false,
        false, true, false, false, true, true, false)), (String ((Ascii
        (false, false, false, false, false, true, false, false)), (String
        ((Ascii (true, false, false, true, false, false, true, false)),
        (String ((Ascii (false, true, true, true, false, false, true,
        false)), (String ((Ascii (false, true, true, false, false, false,
        true, false)), (String ((Ascii (true, true, true, true, false, false,
        true, false)), EmptyString)))))))))))))))))))))))))))))), (String
        ((Ascii (true, true, true, true, false, false, true, false)),
        EmptyString)))) :: [])), SSkip)) :: ((SFound (KeywordEnd,
      Z0)) :: ((SPush st_stateExpectKeyword) :: ((SSetStep
      st_stateParameterOrAnnotation) :: (SRetNil :: []))))))) :: (((String
    ((Ascii (true, true, false, false, true, true, true, false)), (String
    ((Ascii (false, false, true, false, true, true, true, false)), (String
    ((Ascii (true, false, false, false, false, true, true, false)), (String
    ((Ascii (false, false, true, false, true, true, true, false)), (String
    ((Ascii (true, false, true, false, false, true, true, false)), (String
    ((Ascii (false, true, false, true, false, false, true, false)),
    EmptyString)))))))))))),
    (block ((SIf ((CByte (Npos (XI (XI (XO (XO (XI (XO XH)))))))),
      (block ((SSetStep st_stateJS) :: (SRetNil :: []))),
      (block ((SRetErr ((String ((Ascii (true, false, false, true, false,
        true, true, false)), (String ((Ascii (false, true, true, true, false,
        true, true, false)), (String ((Ascii (false, false, false, false,
        false, true, false, false)), (String ((Ascii (true, true, false,
        true, false, true, true, false)), (String ((Ascii (true, false, true,
        false, false, true, true, false)), (String ((Ascii (true, false,
        false, true, true, true, true, false)), (String ((Ascii (true, true,
        true, false, true, true, true, false)), (String ((Ascii (true, true,
        true, true, false, true, true, false)), (String ((Ascii (false, true,
        false, false, true, true, true, false)), (String ((Ascii (false,
        false, true, false, false, true, true, false)), (String ((Ascii
        (false, false, false, false, false, true, false, false)), (String
        ((Ascii (false, true, false, true, false, false, true, false)),
        (String ((Ascii (true, true, false, false, true, false, true,
        false)), (String ((Ascii (true, false, false, true, false, false,
        true, false)), (String ((Ascii (true, true, true, false, false,
        false, true, false)), (String ((Ascii (false, false, false, true,
        false, false, true, false)), (String ((Ascii (false, false, true,
        false, true, false, true, false)),
        EmptyString)))))))))))))))))))))))))))))))))), (String ((Ascii (true,
        true, false, false, true, false, true, false)),
        EmptyString)))) :: [])))) :: []))) :: (((String ((Ascii (true, true,
    false, false, true, true, true, false)), (String ((Ascii (false, false,
    true, false, true, true, true, false)), (String ((Ascii (true, false,
    false, false, false, true, true, false)), (String ((Ascii (false, false,
    true, false, true, true, true, false)), (String ((Ascii (true, false,
    true, false, false, true, true, false)), (String ((Ascii (false, true,
    false, true, false, false, true, false)), (String ((Ascii (true, true,
    false, false, true, false, true, false)), EmptyString)))))))))))))),
    (block ((SIf ((CByte (Npos (XI (XO (XO (XI (XO (XO XH)))))))),
      (block ((SSetStep st_stateJSI) :: (SRetNil :: []))),
      (block ((SRetErr ((String ((Ascii (true, false, false, true, false,
        true, true, false)), (String ((Ascii (false, true, true, true, false,
        true, true, false)), (String ((Ascii (false, false, false, false,
        false, true, false, false)), (String ((Ascii (true, true, false,
        true, false, true, true, false)), (String ((Ascii (true, false, true,
        false, false, true, true, false)), (String ((Ascii (true, false,
        false, true, true, true, true, false)), (String ((Ascii (true, true,
        true, false, true, true, true, false)), (String ((Ascii (true, true,
        true, true, false, true, true, false)), (String ((Ascii (false, true,
        false, false, true, true, true, false)), (String ((Ascii (false,
        false, true, false, false, true, true, false)), (String ((Ascii
        (false, false, false, false, false, true, false, false)), (String
        ((Ascii (false, true, false, true, false, false, true, false)),
        (String ((Ascii (true, true, false, false, true, false, true,
        false)), (String ((Ascii (true, false, false, true, false, false,
        true, false)), (String ((Ascii (true, true, true, false, false,
        false, true, false)), (String ((Ascii (false, false, false, true,
        false, false, true, false)), (String ((Ascii (false, false, true,
        false, true, false, true, false)),
        EmptyString)))))))))))))))))))))))))))))))))), (String ((Ascii (true,
        true, true, true, false, false, true, false)),
        EmptyString)))) :: [])))) :: []))) :: (((String ((Ascii (true, true,
    false, false, true, true, true, false)), (String ((Ascii (false, false,
    true, false, true, true, true, false)), (String ((Ascii (true, false,
    false, false, false, true, true, false)), (String ((Ascii (false, false,
    true, false, true, true, true, false)), (String ((Ascii (true, false,
    true, false, false, true, true, false)), (String ((Ascii (false, true,
    false, true, false, false, true, false)), (String ((Ascii (true, true,
    false, false, true, false, true, false)), (String ((Ascii (true, false,
    false, true, false, false, true, false)), EmptyString)))))))))))))))),
    (block ((SIf ((CByte (Npos (XI (XI (XI (XO (XO (XO XH)))))))),
      (block ((SSetStep st_stateJSIG) :: (SRetNil :: []))),
      (block ((SRetErr ((String ((Ascii (true, false, false, true, false,
        true, true, false)), (String ((Ascii (false, true, true, true, false,
        true, true, false)), (String ((Ascii (false, false, false, false,
        false, true, false, false)), (String ((Ascii (true, true, false,
        true, false, true, true, false)), (String ((Ascii (true, false, true,
        false, false, true, true, false)), (String ((Ascii (true, false,
        false, true, true, true, true, false)), (String ((Ascii (true, true,
        true, false, true, true, true, false)), (String ((Ascii (true, true,
        true, true, false, true, true, false)), (String ((Ascii (false, true,
        false, false, true, true, true, false)), (String ((Ascii (false,
        false, true, false, false, true, true, false)), (String ((Ascii
        (false, false, false, false, false, true, false, false)), (String
        ((Ascii (false, true, false, true, false, false, true, false)),
        (String ((Ascii (true, true, false, false, true, false, true,
        false)), (String ((Ascii (true, false, false, true, false, false,
        true, false)), (String ((Ascii (true, true, true, false, false,
        false, true, false)), (String ((Ascii (false, false, false, true,
        false, false, true, false)), (String ((Ascii (false, false, true,
        false, true, false, true, false)),
        EmptyString)))))))))))))))))))))))))))))))))), (String ((Ascii (true,
        true, true, false, false, false, true, false)),
        EmptyString)))) :: [])))) :: []))) :: (((String ((Ascii (true, true,
    false, false, true, true, true, false)), (String ((Ascii (false, false,
    true, false, true, true, true, false)), (String ((Ascii (true, false,
    false, false, false, true, true, false)), (String ((Ascii (false, false,
    true, false, true, true, true, false)), (String ((Ascii (true, false,
    true, false, false, true, true, false)), (String ((Ascii (false, true,
    false, true, false, false, true, false)), (String ((Ascii (true, true,
    false, false, true, false, true, false)), (String ((Ascii (true, false,
    false, true, false, false, true, false)), (String ((Ascii (true, true,
    true, false, false, false, true, false)), EmptyString)))))))))))))))))),
    (block ((SIf ((CByte (Npos (XO (XO (XO (XI (XO (XO XH)))))))),
      (block ((SSetStep st_stateJSIGH) :: (SRetNil :: []))),
      (block ((SRetErr ((String ((Ascii (true, false, false, true, false,
        true, true, false)), (String ((Ascii (false, true, true, true, false,
        true, true, false)), (String ((Ascii (false, false, false, false,
        false, true, false, false)), (String ((Ascii (true, true, false,
        true, false, true, true, false)), (String ((Ascii (true, false, true,
        false, false, true, true, false)), (String ((Ascii (true, false,
        false, true, true, true, true, false)), (String ((Ascii (true, true,
        true, false, true, true, true, false)), (String ((Ascii (true, true,
        true, true, false, true, true, false)), (String ((Ascii (false, true,
        false, false, true, true, true, false)), (String ((Ascii (false,
        false, true, false, false, true, true, false)), (String ((Ascii
        (false, false, false, false, false, true, false, false)), (String
        ((Ascii (false, true, false, true, false, false, true, false)),
        (String ((Ascii (true, true, false, false, true, false, true,
        false)), (String ((Ascii (true, false, false, true, false, false,
        true, false)), (String ((Ascii (true, true, true, false, false,
        false, true, false)), (String ((Ascii (false, false, false, true,
        false, false, true, false)), (String ((Ascii (false, false, true,
        false, true, false, true, false)),
        EmptyString)))))))))))))))))))))))))))))))))), (String ((Ascii
        (false, false, false, true, false, false, true, false)),
        EmptyString)))) :: [])))) :: []))) :: (((String ((Ascii (true, true,
    false, false, true, true, true, false)), (String ((Ascii (false, false,
    true, false, true, true, true, false)), (String ((Ascii (true, false,
    false, false, false, true, true, false)), (String ((Ascii (false, false,
    true, false, true, true, true, false)), (String ((Ascii (true, false,
    true, false, false, true, true, false)), (String ((Ascii (false, true,
    false, true, false, false, true, false)), (String ((Ascii (true, true,
    false, false, true, false, true, false)), (String ((Ascii (true, false,
    false, true, false, false, true, false)), (String ((Ascii (true, true,
    true, false, false, false, true, false)), (String ((Ascii (false, false,
    false, true, false, false, true, false)),
    EmptyString)))))))))))))))))))),
    (block ((SIf ((CByte (Npos (XO (XO (XI (XO (XI (XO XH)))))))),
      (block ((SFound (KeywordEnd, Z0)) :: ((SPush
        st_stateExpectKeyword) :: ((SSetStep
        st_stateParameterOrAnnotation) :: (SRetNil :: []))))),
      (block ((SRetErr ((String ((Ascii (true, false, false, true, false,
        true, true, false)), (String ((Ascii (false, true, true, true, false,
        true, true, false)), (String ((Ascii (false, false, false, false,
        false, true, false, false)), (String ((Ascii (true, true, false,
        true, false, true, true, false)), (String ((Ascii (true, false, true,
        false, false, true, true, false)), (String ((Ascii (true, false,
        false, true, true, true, true, false)), (String ((Ascii (true, true,
        true, false, true, true, true, false)), (String ((Ascii (true, true,
        true, true, false, true, true, false)), (String ((Ascii (false, true,
        false, false, true, true, true, false)), (String ((Ascii (false,
        false, true, false, false, true, true, false)), (String ((Ascii
        (false, false, false, false, false, true, false, false)), (String
        ((Ascii (false, true, false, true, false, false, true, false)),
        (String ((Ascii (true, true, false, false, true, false, true,
        false)), (String ((Ascii (true, false, false, true, false, false,
        true, false)), (String ((Ascii (true, true, true, false, false,
        false, true, false)), (String ((Ascii (false, false, false, true,
        false, false, true, false)), (String ((Ascii (false, false, true,
        false, true, false, true, false)),
        EmptyString)))))))))))))))))))))))))))))))))), (String ((Ascii
        (false, false, true, false, true, false, true, false)),
        EmptyString)))) :: [])))) :: []))) :: (((String ((Ascii (true, true,
    false, false, true, true, true, false)), (String ((Ascii (false, false,
    true, false, true, true, true, false)), (String ((Ascii (true, false,
    false, false, false, true, true, false)), (String ((Ascii (false, false,
    true, false, true, true, true, false)), (String ((Ascii (true, false,
    true, false, false, true, true, false)), (String ((Ascii (false, true,
    false, true, false, false, true, false)), (String ((Ascii (true, true,
    false, false, true, false, true, false)), (String ((Ascii (true, true,
    false, false, false, true, true, false)), (String ((Ascii (false, false,
    false, true, false, true, true, false)), (String ((Ascii (true, false,
    true, false, false, true, true, false)), (String ((Ascii (true, false,
    true, true, false, true, true, false)), (String ((Ascii (true, false,
    false, false, false, true, true, false)),
    EmptyString)))))))))))))))))))))))),
    (block ((SFound (SchemaBegin, Z0)) :: ((SOracle OJSchema) :: ((SSetStep
      st_stateSchemaClosed) :: (SRetNil :: [])))))) :: (((String ((Ascii
    (true, true, false, false, true, true, true, false)), (String ((Ascii
    (false, false, true, false, true, true, true, false)), (String ((Ascii
    (true, false, false, false, false, true, true, false)), (String ((Ascii
    (false, false, true, false, true, true, true, false)), (String ((Ascii
    (true, false, true, false, false, true, true, false)), (String ((Ascii
    (true, false, true, true, false, false, true, false)),
    EmptyString)))))))))))),
    (block ((SIf ((CByte (Npos (XI (XO (XO (XO (XO (XO XH)))))))),
      (block ((SSetStep st_stateMA) :: (SRetNil :: []))),
      (block ((SIf ((CByte (Npos (XI (XO (XI (XO (XO (XI XH)))))))),
        (block ((SSetStep st_stateMe) :: (SRetNil :: []))),
        (block ((SRetErr ((String ((Ascii (true, false, false, true, false,
          true, true, false)), (String ((Ascii (false, true, true, true,
          false, true, true, false)), (String ((Ascii (false, false, false,
          false, false, true, false, false)), (String ((Ascii (false, false,
          true, false, false, true, true, false)), (String ((Ascii (true,
          false, false, true, false, true, true, false)), (String ((Ascii
          (false, true, false, false, true, true, true, false)), (String
          ((Ascii (true, false, true, false, false, true, true, false)),
          (String ((Ascii (true, true, false, false, false, true, true,
          false)), (String ((Ascii (false, false, true, false, true, true,
          true, false)), (String ((Ascii (true, false, false, true, false,
          true, true, false)), (String ((Ascii (false, true, true, false,
          true, true, true, false)), (String ((Ascii (true, false, true,
          false, false, true, true, false)), (String ((Ascii (false, false,
          false, false, false, true, false, false)), (String ((Ascii (false,
          true, true, true, false, true, true, false)), (String ((Ascii
          (true, false, false, false, false, true, true, false)), (String
          ((Ascii (true, false, true, true, false, true, true, false)),
          (String ((Ascii (true, false, true, false, false, true, true,
          false)), EmptyString)))))))))))))))))))))))))))))))))),
          EmptyString)) :: [])))) :: [])))) :: []))) :: (((String ((Ascii
    (true, true, false, false, true, true, true, false)), (String ((Ascii
    (false, false, true, false, true, true, true, false)), (String ((Ascii
    (true, false, false, false, false, true, true, false)), (String ((Ascii
    (false, false, true, false, true, true, true, false)), (String ((Ascii
    (true, false, true, false, false, true, true, false)), (String ((Ascii
    (true, false, true, true, false, false, true, false)), (String ((Ascii
    (true, false, false, false, false, false, true, false)),
    EmptyString)))))))))))))),
    (block ((SIf ((CByte (Npos (XI (XI (XO (XO (XO (XO XH)))))))),
      (block ((SSetStep st_stateMAC) :: (SRetNil :: []))),
      (block ((SRetErr ((String ((Ascii (true, false, false, true, false,
        true, true, false)), (String ((Ascii (false, true, true, true, false,
        true, true, false)), (String ((Ascii (false, false, false, false,
        false, true, false, false)), (String ((Ascii (true, true, false,
        true, false, true, true, false)), (String ((Ascii (true, false, true,
        false, false, true, true, false)), (String ((Ascii (true, false,
        false, true, true, true, true, false)), (String ((Ascii (true, true,
        true, false, true, true, true, false)), (String ((Ascii (true, true,
        true, true, false, true, true, false)), (String ((Ascii (false, true,
        false, false, true, true, true, false)), (String ((Ascii (false,
        false, true, false, false, true, true, false)), (String ((Ascii
        (false, false, false, false, false, true, false, false)), (String
        ((Ascii (true, false, true, true, false, false, true, false)),
        (String ((Ascii (true, false, false, false, false, false, true,
        false)), (String ((Ascii (true, true, false, false, false, false,
        true, false)), (String ((Ascii (false, true, false, false, true,
        false, true, false)), (String ((Ascii (true, true, true, true, false,
        false, true, false)), EmptyString)))))))))))))))))))))))))))))))),
        (String ((Ascii (true, false, true, false, false, true, true,
        false)), EmptyString)))) :: [])))) :: []))) :: (((String ((Ascii
    (true, true, false, false, true, true, true, false)), (String ((Ascii
    (false, false, true, false, true, true, true, false)), (String ((Ascii
    (true, false, false, false, false, true, true, false)), (String ((Ascii
    (false, false, true, false, true, true, true, false)), (String ((Ascii
    (true, false, true, false, false, true, true, false)), (String ((Ascii
    (true, false, true, true, false, false, true, false)), (String ((Ascii
    (true, false, false, false, false, false, true, false)), (String ((Ascii
    (true, true, false, false, false, false, true, false)),
    EmptyString)))))))))))))))),
    (block ((SIf ((CByte (Npos (XO (XI (XO (XO (XI (XO XH)))))))),
      (block ((SSetStep st_stateMACR) :: (SRetNil :: []))),
      (block ((SRetErr ((String ((Ascii (true, false, false, true, false,
        true, true, false)), (String ((Ascii (false, true, true, true, false,
        true, true, false)), (String ((Ascii (false, false, false, false,
        false, true, false, false)), (String ((Ascii (true, true, false,
        true, false, true, true, false)), (String ((Ascii (true, false, true,
        false, false, true, true, false)), (String ((Ascii (true, false,
        false, true, true, true, true, false)), (String ((Ascii (true, true,
        true, false, true, true, true, false)), (String ((Ascii (true, true,
        true, true, false, true, true, false)), (String ((Ascii (false, true,
        false, false, true, true, true, false)), (String ((Ascii (false,
        false, true, false, false, true, true, false)), (String ((Ascii
        (false, false, false, false, false, true, false, false)), (String
        ((Ascii (true, false, true, true, false, false, true, false)),
        (String ((Ascii (true, false, false, false, false, false, true,
        false)), (String ((Ascii (true, true, false, false, false, false,
        true, false)), (String ((Ascii (false, true, false, false, true,
        false, true, false)), (String ((Ascii (true, true, true, true, false,
        false, true, false)), EmptyString)))))))))))))))))))))))))))))))),
        (String ((Ascii (false, true, false, false, true, true, true,
        false)), EmptyString)))) :: [])))) :: []))) :: (((String ((Ascii
    (true, true, false, false, true, true, true, false)), (String ((Ascii
    (false, false, true, false, true, true, true, false)), (String ((Ascii
    (true, false, false, false, false, true, true, false)), (String ((Ascii
    (false, false, true, false, true, true, true, false)), (String ((Ascii
    (true, false, true, false, false, true, true, false)), (String ((Ascii
    (true, false, true, true, false, false, true, false)), (String ((Ascii
    (true, false, false, false, false, false, true, false)), (String ((Ascii
    (true, true, false, false, false, false, true, false)), (String ((Ascii
    (false, true, false, false, true, false, true, false)),
    EmptyString)))))))))))))))))),
    (block ((SIf ((CByte (Npos (XI (XI (XI (XI (XO (XO XH)))))))),
      (block ((SFound (KeywordEnd, Z0)) :: ((SPush
        st_stateExpectKeyword) :: ((SSetStep
        st_stateParameterOrAnnotation) :: (SRetNil :: []))))),
      (block ((SRetErr ((String ((Ascii (true, false, false, true, false,
        true, true, false)), (String ((Ascii (false, true, true, true, false,
        true, true, false)), (String ((Ascii (false, false, false, false,
        false, true, false, false)), (String ((Ascii (true, true, false,
        true, false, true, true, false)), (String ((Ascii (true, false, true,
        false, false, true, true, false)), (String ((Ascii (true, false,
        false, true, true, true, true, false)), (String ((Ascii (true, true,
        true, false, true, true, true, false)), (String ((Ascii (true, true,
        true, true, false, true, true, false)), (String ((Ascii (false, true,
        false, false, true, true, true, false)), (String ((Ascii (false,
        false, true, false, false, true, true, false)), (String ((Ascii
        (false, false, false, false, false, true, false, false)), (String
        ((Ascii (true, false, true, true, false, false, true, false)),
        (String ((Ascii (true, false, false, false, false, false, true,
        false)), (String ((Ascii (true, true, false, false, false, false,
        true, false)), (String ((Ascii (false, true, false, false, true,
        false, true, false)), (String ((Ascii (true, true, true, true, false,
        false, true, false)), EmptyString)))))))))))))))))))))))))))))))),
        (String ((Ascii (true, false, false, true, true, true, true, false)),
        EmptyString)))) :: [])))) :: []))) :: (((String ((Ascii (true, true,
    false, false, true, true, true, false)), (String ((Ascii (false, false,
    true, false, true, true, true, false)), (String ((Ascii (true, false,
    false, false, false, true, true, false)), (String ((Ascii (false, false,
    true, false, true, true, true, false)), (String ((Ascii (true, false,
    true, false, false, true, true, false)), (String ((Ascii (true, false,
    true, true, false, false, true, false)), (String ((Ascii (true, false,
    true, false, false, true, true, false)), EmptyString)))))))))))))),
    (block ((SIf ((CByte (Npos (XO (XO (XI (XO (XI (XI XH)))))))),
      (block ((SSetStep st_stateMet) :: (SRetNil :: []))),
      (block ((SRetErr ((String ((Ascii (true, false, false, true, false,
        true, true, false)), (String ((Ascii (false, true, true, true, false,
        true, true, false)), (String ((Ascii (false, false, false, false,
        false, true, false, false)), (String ((Ascii (true, true, false,
        true, false, true, true, false)), (String ((Ascii (true, false, true,
        false, false, true, true, false)), (String ((Ascii (true, false,
        false, true, true, true, true, false)), (String ((Ascii (true, true,
        true, false, true, true, true, false)), (String ((Ascii (true, true,
        true, true, false, true, true, false)), (String ((Ascii (false, true,
        false, false, true, true, true, false)), (String ((Ascii (false,
        false, true, false, false, true, true, false)), (String ((Ascii
        (false, false, false, false, false, true, false, false)), (String
        ((Ascii (true, false, true, true, false, false, true, false)),
        (String ((Ascii (true, false, true, false, false, true, true,
        false)), (String ((Ascii (false, false, true, false, true, true,
        true, false)), (String ((Ascii (false, false, false, true, false,
        true, true, false)), (String ((Ascii (true, true, true, true, false,
        true, true, false)), (String ((Ascii (false, false, true, false,
        false, true, true, false)),
        EmptyString)))))))))))))))))))))))))))))))))), (String ((Ascii
        (false, false, true, false, true, true, true, false)),
        EmptyString)))) :: [])))) :: []))) :: (((String ((Ascii (true, true,
    false, false, true, true, true, false)), (String ((Ascii (false, false,
    true, false, true, true, true, false)), (String ((Ascii (true, false,
    false, false, false, true, true, false)), (String ((Ascii (false, false,
    true, false, true, true, true, false)), (String ((Ascii (true, false,
    true, false, false, true, true, false)), (String ((Ascii (true, false,
    true, true, false, false, true, false)), (String ((Ascii (true, false,
    true, false, false, true, true, false)), (String ((Ascii (false, false,
    true, false, true, true, true, false)), EmptyString)))))))))))))))),
    (block ((SIf ((CByte (Npos (XO (XO (XO (XI (XO (XI XH)))))))),
      (block ((SSetStep st_stateMeth) :: (SRetNil :: []))),
      (block ((SRetErr ((String ((Ascii (true, false, false, true, false,
        true, true, false)), (String ((Ascii (false, true, true, true, false,
        true, true, false)), (String ((Ascii (false, false, false, false,
        false, true, false, false)), (String ((Ascii (true, true, false,
        true, false, true, true, false)), (String ((Ascii (true, false, true,
        false, false, true, true, false)), (String ((Ascii (true, false,
        false, true, true, true, true, false)), (String ((Ascii (true, true,
        true, false, true, true, true, false)), (String ((Ascii (true, true,
        true, true, false, true, true, false)), (String ((Ascii (false, true,
        false, false, true, true, true, false)), (String ((Ascii (false,
        false, true, false, false, true, true, false)), (String ((Ascii
        (false, false, false, false, false, true, false, false)), (String
        ((Ascii (true, false, true, true, false, false, true, false)),
        (String ((Ascii (true, false, true, false, false, true, true,
        false)), (String ((Ascii (false, false, true, false, true, true,
        true, false)), (String ((Ascii (false, false, false, true, false,
        true, true, false)), (String ((Ascii (true, true, true, true, false,
        true, true, false)), (String ((Ascii (false, false, true, false,
        false, true, true, false)),
        EmptyString)))))))))))))))))))))))))))))))))), (String ((Ascii
        (false, false, false, true, false, true, true, false)),
        EmptyString)))) :: [])))) :: []))) :: (((String ((Ascii (true, true,
    false, false, true, true, true, false)), (String ((Ascii (false, false,
    true, false, true, true, true, false)), (String ((Ascii (true, false,
    false, false, false, true, true, false)), (String ((Ascii (false, false,
    true, false, true, true, true, false)), (String ((Ascii (true, false,
    true, false, false, true, true, false)), (String ((Ascii (true, false,
    true, true, false, false, true, false)), (String ((Ascii (true, false,
    true, false, false, true, true, false)), (String ((Ascii (false, false,
    true, false, true, true, true, false)), (String ((Ascii (false, false,
    false, true, false, true, true, false)), EmptyString)))))))))))))))))),
    (block ((SIf ((CByte (Npos (XI (XI (XI (XI (XO (XI XH)))))))),
      (block ((SSetStep st_stateMetho) :: (SRetNil :: []))),
      (block ((SRetErr ((String ((Ascii (true, false, false, true, false,
        true, true, false)), (String ((Ascii (false, true, true, true, false,
        true, true, false)), (String ((Ascii (false, false, false, false,
        false, true, false, false)), (String ((Ascii (true, true, false,
        true, false, true, true, false)), (String ((Ascii (true, false, true,
        false, false, true, true, false)), (String ((Ascii (true, false,
        false, true, true, true, true, false)), (String ((Ascii (true, true,
        true, false, true, true, true, false)), (String ((Ascii (true, true,
        true, true, false, true, true, false)), (String ((Ascii (false, true,
        false, false, true, true, true, false)), (String ((Ascii (false,
        false, true, false, false, true, true, false)), (String ((Ascii
        (false, false, false, false, false, true, false, false)), (String
        ((Ascii (true, false, true, true, false, false, true, false)),
        (String ((Ascii (true, false, true, false, false, true, true,
        false)), (String ((Ascii (false, false, true, false, true, true,
        true, false)), (String ((Ascii (false, false, false, true, false,
        true, true, false)), (String ((Ascii (true, true, true, true, false,
        true, true, false)), (String ((Ascii (false, false, true, false,
        false, true, true, false)),
        EmptyString)))))))))))))))))))))))))))))))))), (String ((Ascii (true,
        true, true, true, false, true, true, false)), EmptyString)))) :: [])))) :: []))) :: (((String
    ((Ascii (true, true, false, false, true, true, true, false)), (String
    ((Ascii (false, false, true, false, true, true, true, false)), (String
    ((Ascii (true, false, false, false, false, true, true, false)), (String
    ((Ascii (false, false, true, false, true, true, true, false)), (String
    ((Ascii (true, false, true, false, false, true, true, false)), (String
    ((Ascii (true, false, true, true, false, false, true, false)), (String
    ((Ascii (true, false, true, false, false, true, true, false)), (String
    ((Ascii (false, false, true, false, true, true, true, false)), (String
    ((Ascii (false, false, false, true, false, true, true, false)), (String
    ((Ascii (true, true, true, true, false, true, true, false)),
    EmptyString)))))))))))))))))))),
    (block ((SIf ((CByte (Npos (XO (XO (XI (XO (XO (XI XH)))))))),
      (block ((SFound (KeywordEnd, Z0)) :: ((SPush
        st_stateExpectKeyword) :: ((SSetStep
        st_stateParameterOrAnnotation) :: (SRetNil :: []))))),
      (block ((SRetErr ((String ((Ascii (true, false, false, true, false,
        true, true, false)), (String ((Ascii (false, true, true, true, false,
        true, true, false)), (String ((Ascii (false, false, false, false,
        false, true, false, false)), (String ((Ascii (true, true, false,
        true, false, true, true, false)), (String ((Ascii (true, false, true,
        false, false, true, true, false)), (String ((Ascii (true, false,
        false, true, true, true, true, false)), (String ((Ascii (true, true,
        true, false, true, true, true, false)), (String ((Ascii (true, true,
        true, true, false, true, true, false)), (String ((Ascii (false, true,
        false, false, true, true, true, false)), (String ((Ascii (false,
        false, true, false, false, true, true, false)), (String ((Ascii
        (false, false, false, false, false, true, false, false)), (String
        ((Ascii (true, false, true, true, false, false, true, false)),
        (String ((Ascii (true, false, true, false, false, true, true,
        false)), (String ((Ascii (false, false, true, false, true, true,
        true, false)), (String ((Ascii (false, false, false, true, false,
        true, true, false)), (String ((Ascii (true, true, true, true, false,
        true, true, false)), (String ((Ascii (false, false, true, false,
        false, true, true, false)),
        EmptyString)))))))))))))))))))))))))))))))))), (String ((Ascii
        (false, false, true, false, false, true, true, false)),
        EmptyString)))) :: [])))) :: []))) :: (((String ((Ascii (true, true,
    false, false, true, true, true, false)), (String ((Ascii (false, false,
    true, false, true, true, true, false)), (String ((Ascii (true, false,
    false, false, false, true, true, false)), (String ((Ascii (false, false,
    true, false, true, true, true, false)), (String ((Ascii (true, false,
    true, false, false, true, true, false)), (String ((Ascii (true, false,
    true, true, false, false, true, false)), (String ((Ascii (true, false,
    true, false, true, true, true, false)), (String ((Ascii (false, false,
    true, true, false, true, true, false)), (String ((Ascii (false, false,
    true, false, true, true, true, false)), (String ((Ascii (true, false,
    false, true, false, true, true, false)), (String ((Ascii (false, false,
    true, true, false, true, true, false)), (String ((Ascii (true, false,
    false, true, false, true, true, false)), (String ((Ascii (false, true,
    true, true, false, true, true, false)), (String ((Ascii (true, false,
    true, false, false, true, true, false)), (String ((Ascii (true, false,
    false, false, false, false, true, false)), (String ((Ascii (false, true,
    true, true, false, true, true, false)), (String ((Ascii (false, true,
    true, true, false, true, true, false)), (String ((Ascii (true, true,
    true, true, false, true, true, false)), (String ((Ascii (false, false,
    true, false, true, true, true, false)), (String ((Ascii (true, false,
    false, false, false, true, true, false)), (String ((Ascii (false, false,
    true, false, true, true, true, false)), (String ((Ascii (true, false,
    false, true, false, true, true, false)), (String ((Ascii (true, true,
    true, true, false, true, true, false)), (String ((Ascii (false, true,
    true, true, false, true, true, false)),
    EmptyString)))))))))))))))))))))))))))))))))))))))))))))))),
    (block ((SIf ((CAnd ((CByte (Npos (XI (XI (XI (XI (XO XH))))))),
      (CPrevByte ((Zpos XH), (Npos (XO (XI (XO (XI (XO XH)))))))))),
      (block ((SFound (AnnotationEnd, (Zneg (XO XH)))) :: (SPop :: []))),
      (block ((SIf ((CByte N0),
        (block ((SRetErr ((String ((Ascii (true, false, true, true, false,
          true, true, false)), (String ((Ascii (true, false, true, false,
          true, true, true, false)), (String ((Ascii (false, false, true,
          true, false, true, true, false)), (String ((Ascii (false, false,
          true, false, true, true, true, false)), (String ((Ascii (true,
          false, false, true, false, true, true, false)), (String ((Ascii
          (false, false, true, true, false, true, true, false)), (String
          ((Ascii (true, false, false, true, false, true, true, false)),
          (String ((Ascii (false, true, true, true, false, true, true,
          false)), (String ((Ascii (true, false, true, false, false, true,
          true, false)), (String ((Ascii (false, false, false, false, false,
          true, false, false)), (String ((Ascii (true, false, false, false,
          false, true, true, false)), (String ((Ascii (false, true, true,
          true, false, true, true, false)), (String ((Ascii (false, true,
          true, true, false, true, true, false)), (String ((Ascii (true,
          true, true, true, false, true, true, false)), (String ((Ascii
          (false, false, true, false, true, true, true, false)), (String
          ((Ascii (true, false, false, false, false, true, true, false)),
          (String ((Ascii (false, false, true, false, true, true, true,
          false)), (String ((Ascii (true, false, false, true, false, true,
          true, false)), (String ((Ascii (true, true, true, true, false,
          true, true, false)), (String ((Ascii (false, true, true, true,
          false, true, true, false)),
          EmptyString)))))))))))))))))))))))))))))))))))))))), (String
          ((Ascii (false, true, false, true, false, true, false, false)),
          (String ((Ascii (true, true, true, true, false, true, false,
          false)), EmptyString)))))) :: [])), SSkip)) :: [])))) :: (SRetNil :: [])))) :: (((String
    ((Ascii (true, true, false, false, true, true, true, false)), (String
    ((Ascii (false, false, true, false, true, true, true, false)), (String
    ((Ascii (true, false, false, false, false, true, true, false)), (String
    ((Ascii (false, false, true, false, true, true, true, false)), (String
    ((Ascii (true, false, true, false, false, true, true, false)), (String
    ((Ascii (true, false, true, true, false, false, true, false)), (String
    ((Ascii (true, false, true, false, true, true, true, false)), (String
    ((Ascii (false, false, true, true, false, true, true, false)), (String
    ((Ascii (false, false, true, false, true, true, true, false)), (String
    ((Ascii (true, false, false, true, false, true, true, false)), (String
    ((Ascii (false, false, true, true, false, true, true, false)), (String
    ((Ascii (true, false, false, true, false, true, true, false)), (String
    ((Ascii (false, true, true, true, false, true, true, false)), (String
    ((Ascii (true, false, true, false, false, true, true, false)), (String
    ((Ascii (true, false, false, false, false, false, true, false)), (String
    ((Ascii (false, true, true, true, false, true, true, false)), (String
    ((Ascii (false, true, true, true, false, true, true, false)), (String
    ((Ascii (true, true, true, true, false, true, true, false)), (String
    ((Ascii (false, false, true, false, true, true, true, false)), (String
    ((Ascii (true, false, false, false, false, true, true, false)), (String
    ((Ascii (false, false, true, false, true, true, true, false)), (String
    ((Ascii (true, false, false, true, false, true, true, false)), (String
    ((Ascii (true, true, true, true, false, true, true, false)), (String
    ((Ascii (false, true, true, true, false, true, true, false)), (String
    ((Ascii (false, false, true, false, true, false, true, false)), (String
    ((Ascii (true, false, true, false, false, true, true, false)), (String
    ((Ascii (false, false, false, true, true, true, true, false)), (String
    ((Ascii (false, false, true, false, true, true, true, false)), (String
    ((Ascii (true, true, false, false, true, false, true, false)), (String
    ((Ascii (false, false, true, false, true, true, true, false)), (String
    ((Ascii (true, false, false, false, false, true, true, false)), (String
    ((Ascii (false, true, false, false, true, true, true, false)), (String
    ((Ascii (false, false, true, false, true, true, true, false)),
    EmptyString)))))))))))))))))))))))))))))))))))))))))))))))))))))))))))))))))),
    (block ((SFound (AnnotationBegin, Z0)) :: ((SSetStep
      st_stateMultilineAnnotation) :: ((SIf ((CByte (Npos (XI (XI (XI (XI (XO
      XH))))))), (block (SRetNil :: [])), SSkip)) :: ((SRetCall
      st_stateMultilineAnnotation) :: [])))))) :: (((String ((Ascii (true,
    true, false, false, true, true, true, false)), (String ((Ascii (false,
    false, true, false, true, true, true, false)), (String ((Ascii (true,
    false, false, false, false, true, true, false)), (String ((Ascii (false,
    false, true, false, true, true, true, false)), (String ((Ascii (true,
    false, true, false, false, true, true, false)), (String ((Ascii (true,
    true, true, true, false, false, true, false)), EmptyString)))))))))))),
    (block ((SIf ((CByte (Npos (XO (XO (XO (XO (XI (XI XH)))))))),
      (block ((SSetStep st_stateOp) :: (SRetNil :: []))),
      (block ((SRetErr ((String ((Ascii (true, false, false, true, false,
        true, true, false)), (String ((Ascii (false, true, true, true, false,
        true, true, false)), (String ((Ascii (false, false, false, false,
        false, true, false, false)), (String ((Ascii (true, true, false,
        true, false, true, true, false)), (String ((Ascii (true, false, true,
        false, false, true, true, false)), (String ((Ascii (true, false,
        false, true, true, true, true, false)), (String ((Ascii (true, true,
        true, false, true, true, true, false)), (String ((Ascii (true, true,
        true, true, false, true, true, false)), (String ((Ascii (false, true,
        false, false, true, true, true, false)), (String ((Ascii (false,
        false, true, false, false, true, true, false)), (String ((Ascii
        (false, false, false, false, false, true, false, false)), (String
        ((Ascii (true, true, true, true, false, false, true, false)), (String
        ((Ascii (false, false, false, false, true, true, true, false)),
        (String ((Ascii (true, false, true, false, false, true, true,
        false)), (String ((Ascii (false, true, false, false, true, true,
        true, false)), (String ((Ascii (true, false, false, false, false,
        true, true, false)), (String ((Ascii (false, false, true, false,
        true, true, true, false)), (String ((Ascii (true, false, false, true,
        false, true, true, false)), (String ((Ascii (true, true, true, true,
        false, true, true, false)), (String ((Ascii (false, true, true, true,
        false, true, true, false)), (String ((Ascii (true, false, false,
        true, false, false, true, false)), (String ((Ascii (false, false,
        true, false, false, true, true, false)),
        EmptyString)))))))))))))))))))))))))))))))))))))))))))), (String
        ((Ascii (false, false, false, false, true, true, true, false)),
        EmptyString)))) :: [])))) :: []))) :: (((String ((Ascii (true, true,
    false, false, true, true, true, false)), (String ((Ascii (false, false,
    true, false, true, true, true, false)), (String ((Ascii (true, false,
    false, false, false, true, true, false)), (String ((Ascii (false, false,
    true, false, true, true, true, false)), (String ((Ascii (true, false,
    true, false, false, true, true, false)), (String ((Ascii (true, true,
    true, true, false, false, true, false)), (String ((Ascii (false, false,
    false, false, true, true, true, false)), EmptyString)))))))))))))),
    (block ((SIf ((CByte (Npos (XI (XO (XI (XO (XO (XI XH)))))))),
      (block ((SSetStep st_stateOpe) :: (SRetNil :: []))),
      (block ((SRetErr ((String ((Ascii (true, false, false, true, false,
        true, true, false)), (String ((Ascii (false, true, true, true, false,
        true, true, false)), (String ((Ascii (false, false, false, false,
        false, true, false, false)), (String ((Ascii (true, true, false,
        true, false, true, true, false)), (String ((Ascii (true, false, true,
        false, false, true, true, false)), (String ((Ascii (true, false,
        false, true, true, true, true, false)), (String ((Ascii (true, true,
        true, false, true, true, true, false)), (String ((Ascii (true, true,
        true, true, false, true, true, false)), (String ((Ascii (false, true,
        false, false, true, true, true, false)), (String ((Ascii (false,
        false, true, false, false, true, true, false)), (String ((Ascii
        (false, false, false, false, false, true, false, false)), (String
        ((Ascii (true, true, true, true, false, false, true, false)), (String
        ((Ascii (false, false, false, false, true, true, true, false)),
        (String ((Ascii (true, false, true, false, false, true, true,
        false)), (String ((Ascii (false, true, false, false, true, true,
        true, false)), (String ((Ascii (true, false, false, false, false,
        true, true, false)), (String ((Ascii (false, false, true, false,
        true, true, true, false)), (String ((Ascii (true, false, false, true,
        false, true, true, false)), (String ((Ascii (true, true, true, true,
        false, true, true, false)), (String ((Ascii (false, true, true, true,
        false, true, true, false)), (String ((Ascii (true, false, false,
        true, false, false, true, false)), (String ((Ascii (false, false,
        true, false, false, true, true, false)),
        EmptyString)))))))))))))))))))))))))))))))))))))))))))), (String
        ((Ascii (true, false, true, false, false, true, true, false)),
        EmptyString)))) :: [])))) :: []))) :: (((String ((Ascii (true, true,
    false, false, true, true, true, false)), (String ((Ascii (false, false,
    true, false, true, true, true, false)), (String ((Ascii (true, false,
    false, false, false, true, true, false)), (String ((Ascii (false, false,
    true, false, true, true, true, false)), (String ((Ascii (true, false,
    true, false, false, true, true, false)), (String ((Ascii (true, true,
    true, true, false, false, true, false)), (String ((Ascii (false, false,
    false, false, true, true, true, false)), (String ((Ascii (true, false,
    true, false, false, true, true, false)), EmptyString)))))))))))))))),
    (block ((SIf ((CByte (Npos (XO (XI (XO (XO (XI (XI XH)))))))),
      (block ((SSetStep st_stateOper) :: (SRetNil :: []))),
      (block ((SRetErr ((String ((Ascii (true, false, false, true, false,
        true, true, false)), (String ((Ascii (false, true, true, true, false,
        true, true, false)), (String ((Ascii (false, false, false, false,
        false, true, false, false)), (String ((Ascii (true, true, false,
        true, false, true, true, false)), (String ((Ascii (true, false, true,
        false, false, true, true, false)), (String ((Ascii (true, false,
        false, true, true, true, true, false)), (String ((Ascii (true, true,
        true, false, true, true, true, false)), (String ((Ascii (true, true,
        true, true, false, true, true, false)), (String ((Ascii (false, true,
        false, false, true, true, true, false)), (String ((Ascii (false,
        false, true, false, false, true, true, false)), (String ((Ascii
        (false, false, false, false, false, true, false, false)), (String
        ((Ascii (true, true, true, true, false, false, true, false)), (String
        ((Ascii (false, false, false, false, true, true, true, false)),
        (String ((Ascii (true, false, true, false, false, true, true,
        false)), (String ((Ascii (false, true, false, false, true, true,
        true, false)), (String ((Ascii (true, false, false, false, false,
        true, true, false)), (String ((Ascii (false, false, true, false,
        true, true, true, false)), (String ((Ascii (true, false, false, true,
        false, true, true, false)), (String ((Ascii (true, true, true, true,
        false, true, true, false)), (String ((Ascii (false, true, true, true,
        false, true, true, false)), (String ((Ascii (true, false, false,
        true, false, false, true, false)), (String ((Ascii (false, false,
        true, false, false, true, true, false)),
        EmptyString)))))))))))))))))))))))))))))))))))))))))))), (String
        ((Ascii (false, true, false, false, true, true, true, false)),
        EmptyString)))) :: [])))) :: []))) :: (((String ((Ascii (true, true,
    false, false, true, true, true, false)), (String ((Ascii (false, false,
    true, false, true, true, true, false)), (String ((Ascii (true, false,
    false, false, false, true, true, false)), (String ((Ascii (false, false,
    true, false, true, true, true, false)), (String ((Ascii (true, false,
    true, false, false, true, true, false)), (String ((Ascii (true, true,
    true, true, false, false, true, false)), (String ((Ascii (false, false,
    false, false, true, true, true, false)), (String ((Ascii (true, false,
    true, false, false, true, true, false)), (String ((Ascii (false, true,
    false, false, true, true, true, false)), EmptyString)))))))))))))))))),
    (block ((SIf ((CByte (Npos (XI (XO (XO (XO (XO (XI XH)))))))),
      (block ((SSetStep st_stateOpera) :: (SRetNil :: []))),
      (block ((SRetErr ((String ((Ascii (true, false, false, true, false,
        true, true, false)), (String ((Ascii (false, true, true, true, false,
        true, true, false)), (String ((Ascii (false, false, false, false,
        false, true, false, false)), (String ((Ascii (true, true, false,
        true, false, true, true, false)), (String ((Ascii (true, false, true,
        false, false, true, true, false)), (String ((Ascii (true, false,
        false, true, true, true, true, false)), (String ((Ascii (true, true,
        true, false, true, true, true, false)), (String ((Ascii (true, true,
        true, true, false, true, true, false)), (String ((Ascii (false, true,
        false, false, true, true, true, false)), (String ((Ascii (false,
        false, true, false, false, true, true, false)), (String ((Ascii
        (false, false, false, false, false, true, false, false)), (String
        ((Ascii (true, true, true, true, false, false, true, false)), (String
        ((Ascii (false, false, false, false, true, true, true, false)),
        (String ((Ascii (true, false, true, false, false, true, true,
        false)), (String ((Ascii (false, true, false, false, true, true,
        true, false)), (String ((Ascii (true, false, false, false, false,
        true, true, false)), (String ((Ascii (false, false, true, false,
        true, true, true, false)), (String ((Ascii (true, false, false, true,
        false, true, true, false)), (String ((Ascii (true, true, true, true,
        false, true, true, false)), (String ((Ascii (false, true, true, true,
        false, true, true, false)), (String ((Ascii (true, false, false,
        true, false, false, true, false)), (String ((Ascii (false, false,
        true, false, false, true, true, false)),
        EmptyString)))))))))))))))))))))))))))))))))))))))))))), (String
        ((Ascii (true, false, false, false, false, true, true, false)),
        EmptyString)))) :: [])))) :: []))) :: (((String ((Ascii (true, true,
    false, false, true, true, true, false)), (String ((Ascii (false, false,
    true, false, true, true, true, false)), (String ((Ascii (true, false,
    false, false, false, true, true, false)), (String ((Ascii (false, false,
    true, false, true, true, true, false)), (String ((Ascii (true, false,
    true, false, false, true, true, false)), (String ((Ascii (true, true,
    true, true, false, false, true, false)), (String ((Ascii (false, false,
    false, false, true, true, true, false)), (String ((Ascii (true, false,
    true, false, false, true, true, false)), (String ((Ascii (false, true,
    false, false, true, true, true, false)), (String ((Ascii (true, false,
    false, false, false, true, true, false)),
    EmptyString)))))))))))))))))))),
    (block ((SIf ((CByte (Npos (XO (XO (XI (XO (XI (XI XH)))))))),
      (block ((SSetStep st_stateOperat) :: (SRetNil :: []))),
      (block ((SRetErr ((String ((Ascii (true, false, false, true, false,
        true, true, false)), (String ((Ascii (false, true, true, true, false,
        true, true, false)), (String ((Ascii (false, false, false, false,
        false, true, false, false)), (String ((Ascii (true, true, false,
        true, false, true, true, false)), (String ((Ascii (true, false, true,
        false, false, true, true, false)), (String ((Ascii (true, false,
        false, true, true, true, true, false)), (String ((Ascii (true, true,
        true, false, true, true, true, false)), (String ((Ascii (true, true,
        true, true, false, true, true, false)), (String ((Ascii (false, true,
        false, false, true, true, true, false)), (String ((Ascii (false,
        false, true, false, false, true, true, false)), (String ((Ascii
        (false, false, false, false, false, true, false, false)), (String
        ((Ascii (true, true, true, true, false, false, true, false)), (String
        ((Ascii (false, false, false, false, true, true, true, false)),
        (String ((Ascii (true, false, true, false, false, true, true,
        false)), (String ((Ascii (false, true, false, false, true, true,
        true, false)), (String ((Ascii (true, false, false, false, false,
        true, true, false)), (String ((Ascii (false, false, true, false,
        true, true, true, false)), (String ((Ascii (true, false, false, true,
        false, true, true, false)), (String ((Ascii (true, true, true, true,
        false, true, true, false)), (String ((Ascii (false, true, true, true,
        false, true, true, false)), (String ((Ascii (true, false, false,
        true, false, false, true, false)), (String ((Ascii (false, false,
        true, false, false, true, true, false)),
        EmptyString)))))))))))))))))))))))))))))))))))))))))))), (String
        ((Ascii (false, false, true, false, true, true, true, false)),
        EmptyString)))) :: [])))) :: []))) :: (((String ((Ascii (true, true,
    false, false, true, true, true, false)), (String ((Ascii (false, false,
    true, false, true, true, true, false)), (String ((Ascii (true, false,
    false, false, false, true, true, false)), (String ((Ascii (false, false,
    true, false, true, true, true, false)), (String ((Ascii (true, false,
    true, false, false, true, true, false)), (String ((Ascii (true, true,
    true, true, false, false, true, false)), (String ((Ascii (false, false,
    false, false, true, true, true, false)), (String ((Ascii (true, false,
    true, false, false, true, true, false)), (String ((Ascii (false, true,
    false, false, true, true, true, false)), (String ((Ascii (true, false,
    false, false, false, true, true, false)), (String ((Ascii (false, false,
    true, false, true, true, true, false)),
    EmptyString)))))))))))))))))))))),
    (block ((SIf ((CByte (Npos (XI (XO (XO (XI (XO (XI XH)))))))),
      (block ((SSetStep st_stateOperati) :: (SRetNil :: []))),
      (block ((SRetErr ((String ((Ascii (true, false, false, true, false,
        true, true, false)), (String ((Ascii (false, true, true, true, false,
        true, true, false)), (String ((Ascii (false, false, false, false,
        false, true, false, false)), (String ((Ascii (true, true, false,
        true, false, true, true, false)), (String ((Ascii (true, false, true,
        false, false, true, true, false)), (String ((Ascii (true, false,
        false, true, true, true, true, false)), (String ((Ascii (true, true,
        true, false, true, true, true, false)), (String ((Ascii (true, true,
        true, true, false, true, true, false)), (String ((Ascii (false, true,
        false, false, true, true, true, false)), (String ((Ascii (false,
        false, true, false, false, true, true, false)), (String ((Ascii
        (false, false, false, false, false, true, false, false)), (String
        ((Ascii (true, true, true, true, false, false, true, false)), (String
        ((Ascii (false, false, false, false, true, true, true, false)),
        (String ((Ascii (true, false, true, false, false, true, true,
        false)), (String ((Ascii (false, true, false, false, true, true,
        true, false)), (String ((Ascii (true, false, false, false, false,
        true, true, false)), (String ((Ascii (false, false, true, false,
        true, true, true, false)), (String ((Ascii (true, false, false, true,
        false, true, true, false)), (String ((Ascii (true, true, true, true,
        false, true, true, false)), (String ((Ascii (false, true, true, true,
        false, true, true, false)), (String ((Ascii (true, false, false,
        true, false, false, true, false)), (String ((Ascii (false, false,
        true, false, false, true, true, false)),
        EmptyString)))))))))))))))))))))))))))))))))))))))))))), (String
        ((Ascii (true, false, false, true, false, true, true, false)),
        EmptyString)))) :: [])))) :: []))) :: (((String ((Ascii (true, true,
    false, false, true, true, true, false)), (String ((Ascii (false, false,
    true, false, true, true, true, false)), (String ((Ascii (true, false,
    false, false, false, true, true, false)), (String ((Ascii (false, false,
    true, false, true, true, true, false)), (String ((Ascii (true, false,
    true, false, false, true, true, false)), (String ((Ascii (true, true,
    true, true, false, false, true, false)), (String ((Ascii (false, false,
    false, false, true, true, true, false)), (String ((Ascii (true, false,
    true, false, false, true, true, false)), (String ((Ascii (false, true,
    false, false, true, true, true, false)), (String ((Ascii (true, false,
    false, false, false, true, true, false)), (String ((Ascii (false, false,
    true, false, true, true, true, false)), (String ((Ascii (true, false,
    false, true, false, true, true, false)),
    EmptyString)))))))))))))))))))))))),
    (block ((SIf ((CByte (Npos (XI (XI (XI (XI (XO (XI XH)))))))),
      (block ((SSetStep st_stateOperatio) :: (SRetNil :: []))),
      (block ((SRetErr ((String ((Ascii (true, false, false, true, false,
        true, true, false)), (String ((Ascii (false, true, true, true, false,
        true, true, false)), (String ((Ascii (false, false, false, false,
        false, true, false, false)), (String ((Ascii (true, true, false,
        true, false, true, true, false)), (String ((Ascii (true, false, true,
        false, false, true, true, false)), (String ((Ascii (true, false,
        false, true, true, true, true, false)), (String ((Ascii (true, true,
        true, false, true, true, true, false)), (String ((Ascii (true, true,
        true, true, false, true, true, false)), (String ((Ascii (false, true,
        false, false, true, true, true, false)), (String ((Ascii (false,
        false, true, false, false, true, true, false)), (String ((Ascii
        (false, false, false, false, false, true, false, false)), (String
        ((Ascii (true, true, true, true, false, false, true, false)), (String
        ((Ascii (false, false, false, false, true, true, true, false)),
        (String ((Ascii (true, false, true, false, false, true, true,
        false)), (String ((Ascii (false, true, false, false, true, true,
        true, false)), (String ((Ascii (true, false, false, false, false,
        true, true, false)), (String ((Ascii (false, false, true, false,
        true, true, true, false)), (String ((Ascii (true, false, false, true,
        false, true, true, false)), (String ((Ascii (true, true, true, true,
        false, true, true, false)), (String ((Ascii (false, true, true, true,
        false, true, true, false)), (String ((Ascii (true, false, false,
        true, false, false, true, false)), (String ((Ascii (false, false,
        true, false, false, true, true, false)),
        EmptyString)))))))))))))))))))))))))))))))))))))))))))), (String
        ((Ascii (true, true, true, true, false, true, true, false)),
        EmptyString)))) :: [])))) :: []))) :: (((String ((Ascii (true, true,
    false, false, true, true, true, false)), (String ((Ascii (false, false,
    true, false, true, true, true, false)), (String ((Ascii (true, false,
    false, false, false, true, true, false)), (String ((Ascii (false, false,
    true, false, true, true, true, false)), (String ((Ascii (true, false,
    true, false, false, true, true, false)), (String ((Ascii (true, true,
    true, true, false, false, true, false)), (String ((Ascii (false, false,
    false, false, true, true, true, false)), (String ((Ascii (true, false,
    true, false, false, true, true, false)), (String ((Ascii (false, true,
    false, false, true, true, true, false)), (String ((Ascii (true, false,
    false, false, false, true, true, false)), (String ((Ascii (false, false,
    true, false, true, true, true, false)), (String ((Ascii (true, false,
    false, true, false, true, true, false)), (String ((Ascii (true, true,
    true, true, false, true, true, false)),
    EmptyString)))))))))))))))))))))))))),
    (block ((SIf ((CByte (Npos (XO (XI (XI (XI (XO (XI XH)))))))),
      (block ((SSetStep st_stateOperation) :: (SRetNil :: []))),
      (block ((SRetErr ((String ((Ascii (true, false, false, true, false,
        true, true, false)), (String ((Ascii (false, true, true, true, false,
        true, true, false)), (String ((Ascii (false, false, false, false,
        false, true, false, false)), (String ((Ascii (true, true, false,
        true, false, true, true, false)), (String ((Ascii (true, false, true,
        false, false, true, true, false)), (String ((Ascii (true, false,
        false, true, true, true, true, false)), (String ((Ascii (true, true,
        true, false, true, true, true, false)), (String ((Ascii (true, true,
        true, true, false, true, true, false)), (String ((Ascii (false, true,
        false, false, true, true, true, false)), (String ((Ascii (false,
        false, true, false, false, true, true, false)), (String ((Ascii
        (false, false, false, false, false, true, false, false)), (String
        ((Ascii (true, true, true, true, false, false, true, false)), (String
        ((Ascii (false, false, false, false, true, true, true, false)),
        (String ((Ascii (true, false, true, false, false, true, true,
        false)), (String ((Ascii (false, true, false, false, true, true,
        true, false)), (String ((Ascii (true, false, false, false, false,
        true, true, false)), (String ((Ascii (false, false, true, false,
        true, true, true, false)), (String ((Ascii (true, false, false, true,
        false, true, true, false)), (String ((Ascii (true, true, true, true,
        false, true, true, false)), (String ((Ascii (false, true, true, true,
        false, true, true, false)), (String ((Ascii (true, false, false,
        true, false, false, true, false)), (String ((Ascii (false, false,
        true, false, false, true, true, false)),
        EmptyString)))))))))))))))))))))))))))))))))))))))))))), (String
        ((Ascii (false, true, true, true, false, true, true, false)),
        EmptyString)))) :: [])))) :: []))) :: (((String ((Ascii (true, true,
    false, false, true, true, true, false)), (String ((Ascii (false, false,
    true, false, true, true, true, false)), (String ((Ascii (true, false,
    false, false, false, true, true, false)), (String ((Ascii (false, false,
    true, false, true, true, true, false)), (String ((Ascii (true, false,
    true, false, false, true, true, false)), (String ((Ascii (true, true,
    true, true, false, false, true, false)), (String ((Ascii (false, false,
    false, false, true, true, true, false)), (String ((Ascii (true, false,
    true, false, false, true, true, false)), (String ((Ascii (false, true,
    false, false, true, true, true, false)), (String ((Ascii (true, false,
    false, false, false, true, true, false)), (String ((Ascii (false, false,
    true, false, true, true, true, false)), (String ((Ascii (true, false,
    false, true, false, true, true, false)), (String ((Ascii (true, true,
    true, true, false, true, true, false)), (String ((Ascii (false, true,
    true, true, false, true, true, false)),
    EmptyString)))))))))))))))))))))))))))),
    (block ((SIf ((CByte (Npos (XI (XO (XO (XI (XO (XO XH)))))))),
      (block ((SSetStep st_stateOperationI) :: (SRetNil :: []))),
      (block ((SRetErr ((String ((Ascii (true, false, false, true, false,
        true, true, false)), (String ((Ascii (false, true, true, true, false,
        true, true, false)), (String ((Ascii (false, false, false, false,
        false, true, false, false)), (String ((Ascii (true, true, false,
        true, false, true, true, false)), (String ((Ascii (true, false, true,
        false, false, true, true, false)), (String ((Ascii (true, false,
        false, true, true, true, true, false)), (String ((Ascii (true, true,
        true, false, true, true, true, false)), (String ((Ascii (true, true,
        true, true, false, true, true, false)), (String ((Ascii (false, true,
        false, false, true, true, true, false)), (String ((Ascii (false,
        false, true, false, false, true, true, false)), (String ((Ascii
        (false, false, false, false, false, true, false, false)), (String
        ((Ascii (true, true, true, true, false, false, true, false)), (String
        ((Ascii (false, false, false, false, true, true, true, false)),
        (String ((Ascii (true, false, true, false, false, true, true,
        false)), (String ((Ascii (false, true, false, false, true, true,
        true, false)), (String ((Ascii (true, false, false, false, false,
        true, true, false)), (String ((Ascii (false, false, true, false,
        true, true, true, false)), (String ((Ascii (true, false, false, true,
        false, true, true, false)), (String ((Ascii (true, true, true, true,
        false, true, true, false)), (String ((Ascii (false, true, true, true,
        false, true, true, false)), (String ((Ascii (true, false, false,
        true, false, false, true, false)), (String ((Ascii (false, false,
        true, false, false, true, true, false)),
        EmptyString)))))))))))))))))))))))))))))))))))))))))))), (String
        ((Ascii (true, false, false, true, false, false, true, false)),
        EmptyString)))) :: [])))) :: []))) :: (((String ((Ascii (true, true,
    false, false, true, true, true, false)), (String ((Ascii (false, false,
    true, false, true, true, true, false)), (String ((Ascii (true, false,
    false, false, false, true, true, false)), (String ((Ascii (false, false,
    true, false, true, true, true, false)), (String ((Ascii (true, false,
    true, false, false, true, true, false)), (String ((Ascii (true, true,
    true, true, false, false, true, false)), (String ((Ascii (false, false,
    false, false, true, true, true, false)), (String ((Ascii (true, false,
    true, false, false, true, true, false)), (String ((Ascii (false, true,
    false, false, true, true, true, false)), (String ((Ascii (true, false,
    false, false, false, true, true, false)), (String ((Ascii (false, false,
    true, false, true, true, true, false)), (String ((Ascii (true, false,
    false, true, false, true, true, false)), (String ((Ascii (true, true,
    true, true, false, true, true, false)), (String ((Ascii (false, true,
    true, true, false, true, true, false)), (String ((Ascii (true, false,
    false, true, false, false, true, false)),
    EmptyString)))))))))))))))))))))))))))))),
    (block ((SIf ((CByte (Npos (XO (XO (XI (XO (XO (XI XH)))))))),
      (block ((SFound (KeywordEnd, Z0)) :: ((SPush
        st_stateExpectKeyword) :: ((SSetStep
        st_stateParameterOrAnnotation) :: (SRetNil :: []))))),
      (block ((SRetErr ((String ((Ascii (true, false, false, true, false,
        true, true, false)), (String ((Ascii (false, true, true, true, false,
        true, true, false)), (String ((Ascii (false, false, false, false,
        false, true, false, false)), (String ((Ascii (true, true, false,
        true, false, true, true, false)), (String ((Ascii (true, false, true,
        false, false, true, true, false)), (String ((Ascii (true, false,
        false, true, true, true, true, false)), (String ((Ascii (true, true,
        true, false, true, true, true, false)), (String ((Ascii (true, true,
        true, true, false, true, true, false)), (String ((Ascii (false, true,
        false, false, true, true, true, false)), (String ((Ascii (false,
        false, true, false, false, true, true, false)), (String ((Ascii
        (false, false, false, false, false, true, false, false)), (String
        ((Ascii (true, true, true, true, false, false, true, false)), (String
        ((Ascii (false, false, false, false, true, true, true, false)),
        (String ((Ascii (true, false, true, false, false, true, true,
        false)), (String ((Ascii (false, true, false, false, true, true,
        true, false)), (String ((Ascii (true, false, false, false, false,
        true, true, false)), (String ((Ascii (false, false, true, false,
        true, true, true, false)), (String ((Ascii (true, false, false, true,
        false, true, true, false)), (String ((Ascii (true, true, true, true,
        false, true, true, false)), (String ((Ascii (false, true, true, true,
        false, true, true, false)), (String ((Ascii (true, false, false,
        true, false, false, true, false)), (String ((Ascii (false, false,
        true, false, false, true, true, false)),
        EmptyString)))))))))))))))))))))))))))))))))))))))))))), (String
        ((Ascii (false, false, true, false, false, true, true, false)),
        EmptyString)))) :: [])))) :: []))) :: (((String ((Ascii (true, true,
    false, false, true, true, true, false)), (String ((Ascii (false, false,
    true, false, true, true, true, false)), (String ((Ascii (true, false,
    false, false, false, true, true, false)), (String ((Ascii (false, false,
    true, false, true, true, true, false)), (String ((Ascii (true, false,
    true, false, false, true, true, false)), (String ((Ascii (false, false,
    false, false, true, false, true, false)), EmptyString)))))))))))),
    (block ((SIf ((CByte (Npos (XI (XI (XI (XI (XO (XO XH)))))))),
      (block ((SSetStep st_statePO) :: (SRetNil :: []))),
      (block ((SIf ((CByte (Npos (XI (XO (XI (XO (XI (XO XH)))))))),
        (block ((SSetStep st_statePU) :: (SRetNil :: []))),
        (block ((SIf ((CByte (Npos (XI (XO (XO (XO (XO (XO XH)))))))),
          (block ((SSetStep st_statePA) :: (SRetNil :: []))),
          (block ((SIf ((CByte (Npos (XI (XO (XO (XO (XO (XI XH)))))))),
            (block ((SSetStep st_statePa) :: (SRetNil :: []))),
            (block ((SIf ((CByte (Npos (XO (XI (XO (XO (XI (XI XH)))))))),
              (block ((SSetStep st_statePr) :: (SRetNil :: []))),
              (block ((SRetErr ((String ((Ascii (true, false, false, true,
                false, true, true, false)), (String ((Ascii (false, true,
                true, true, false, true, true, false)), (String ((Ascii
                (false, false, false, false, false, true, false, false)),
                (String ((Ascii (false, false, true, false, false, true,
                true, false)), (String ((Ascii (true, false, false, true,
                false, true, true, false)), (String ((Ascii (false, true,
                false, false, true, true, true, false)), (String ((Ascii
                (true, false, true, false, false, true, true, false)),
                (String ((Ascii (true, true, false, false, false, true, true,
                false)), (String ((Ascii (false, false, true, false, true,
                true, true, false)), (String ((Ascii (true, false, false,
                true, false, true, true, false)), (String ((Ascii (false,
                true, true, false, true, true, true, false)), (String ((Ascii
                (true, false, true, false, false, true, true, false)),
                (String ((Ascii (false, false, false, false, false, true,
                false, false)), (String ((Ascii (false, true, true, true,
                false, true, true, false)), (String ((Ascii (true, false,
                false, false, false, true, true, false)), (String ((Ascii
                (true, false, true, true, false, true, true, false)), (String
                ((Ascii (true, false, true, false, false, true, true,
                false)), EmptyString)))))))))))))))))))))))))))))))))),
                EmptyString)) :: [])))) :: [])))) :: [])))) :: [])))) :: [])))) :: []))) :: (((String
    ((Ascii (true, true, false, false, true, true, true, false)), (String
    ((Ascii (false, false, true, false, true, true, true, false)), (String
    ((Ascii (true, false, false, false, false, true, true, false)), (String
    ((Ascii (false, false, true, false, true, true, true, false)), (String
    ((Ascii (true, false, true, false, false, true, true, false)), (String
    ((Ascii (false, false, false, false, true, false, true, false)), (String
    ((Ascii (true, false, false, false, false, false, true, false)),
    EmptyString)))))))))))))),
    (block ((SIf ((CByte (Npos (XI (XI (XO (XO (XI (XO XH)))))))),
      (block ((SSetStep st_statePAS) :: (SRetNil :: []))),
      (block ((SIf ((CByte (Npos (XO (XO (XI (XO (XI (XO XH)))))))),
        (block ((SSetStep st_statePAT) :: (SRetNil :: []))),
        (block ((SRetErr ((String ((Ascii (true, false, false, true, false,
          true, true, false)), (String ((Ascii (false, true, true, true,
          false, true, true, false)), (String ((Ascii (false, false, false,
          false, false, true, false, false)), (String ((Ascii (false, false,
          true, false, false, true, true, false)), (String ((Ascii (true,
          false, false, true, false, true, true, false)), (String ((Ascii
          (false, true, false, false, true, true, true, false)), (String
          ((Ascii (true, false, true, false, false, true, true, false)),
          (String ((Ascii (true, true, false, false, false, true, true,
          false)), (String ((Ascii (false, false, true, false, true, true,
          true, false)), (String ((Ascii (true, false, false, true, false,
          true, true, false)), (String ((Ascii (false, true, true, false,
          true, true, true, false)), (String ((Ascii (true, false, true,
          false, false, true, true, false)), (String ((Ascii (false, false,
          false, false, false, true, false, false)), (String ((Ascii (false,
          true, true, true, false, true, true, false)), (String ((Ascii
          (true, false, false, false, false, true, true, false)), (String
          ((Ascii (true, false, true, true, false, true, true, false)),
          (String ((Ascii (true, false, true, false, false, true, true,
          false)), EmptyString)))))))))))))))))))))))))))))))))),
          EmptyString)) :: [])))) :: [])))) :: []))) :: (((String ((Ascii
    (true, true, false, false, true, true, true, false)), (String ((Ascii
    (false, false, true, false, true, true, true, false)), (String ((Ascii
    (true, false, false, false, false, true, true, false)), (String ((Ascii
    (false, false, true, false, true, true, true, false)), (String ((Ascii
    (true, false, true, false, false, true, true, false)), (String ((Ascii
    (false, false, false, false, true, false, true, false)), (String ((Ascii
    (true, false, false, false, false, false, true, false)), (String ((Ascii
    (true, true, false, false, true, false, true, false)),
    EmptyString)))))))))))))))),
    (block ((SIf ((CByte (Npos (XO (XO (XI (XO (XI (XO XH)))))))),
      (block ((SSetStep st_statePAST) :: (SRetNil :: []))),
      (block ((SRetErr ((String ((Ascii (true, false, false, true, false,
        true, true, false)), (String ((Ascii (false, true, true, true, false,
        true, true, false)), (String ((Ascii (false, false, false, false,
        false, true, false, false)), (String ((Ascii (true, true, false,
        true, false, true, true, false)), (String ((Ascii (true, false, true,
        false, false, true, true, false)), (String ((Ascii (true, false,
        false, true, true, true, true, false)), (String ((Ascii (true, true,
        true, false, true, true, true, false)), (String ((Ascii (true, true,
        true, true, false, true, true, false)), (String ((Ascii (false, true,
        false, false, true, true, true, false)), (String ((Ascii (false,
        false, true, false, false, true, true, false)), (String ((Ascii
        (false, false, false, false, false, true, false, false)), (String
        ((Ascii (true, false, true, true, false, false, true, false)),
        (String ((Ascii (true, false, false, false, false, false, true,
        false)), (String ((Ascii (true, true, false, false, false, false,
        true, false)), (String ((Ascii (false, true, false, false, true,
        false, true, false)), (String ((Ascii (true, true, true, true, false,
        false, true, false)), EmptyString)))))))))))))))))))))))))))))))),
        (String ((Ascii (true, false, true, false, true, true, true, false)),
        EmptyString)))) :: [])))) :: []))) :: (((String ((Ascii (true, true,
    false, false, true, true, true, false)), (String ((Ascii (false, false,
    true, false, true, true, true, false)), (String ((Ascii (true, false,
    false, false, false, true, true, false)), (String ((Ascii (false, false,
    true, false, true, true, true, false)), (String ((Ascii (true, false,
    true, false, false, true, true, false)), (String ((Ascii (false, false,
    false, false, true, false, true, false)), (String ((Ascii (true, false,
    false, false, false, false, true, false)), (String ((Ascii (true, true,
    false, false, true, false, true, false)), (String ((Ascii (false, false,
    true, false, true, false, true, false)), EmptyString)))))))))))))))))),
    (block ((SIf ((CByte (Npos (XI (XO (XI (XO (XO (XO XH)))))))),
      (block ((SFound (KeywordEnd, Z0)) :: ((SPush
        st_stateExpectKeyword) :: ((SSetStep
        st_stateParameterOrAnnotation) :: (SRetNil :: []))))),
      (block ((SRetErr ((String ((Ascii (true, false, false, true, false,
        true, true, false)), (String ((Ascii (false, true, true, true, false,
        true, true, false)), (String ((Ascii (false, false, false, false,
        false, true, false, false)), (String ((Ascii (true, true, false,
        true, false, true, true, false)), (String ((Ascii (true, false, true,
        false, false, true, true, false)), (String ((Ascii (true, false,
        false, true, true, true, true, false)), (String ((Ascii (true, true,
        true, false, true, true, true, false)), (String ((Ascii (true, true,
        true, true, false, true, true, false)), (String ((Ascii (false, true,
        false, false, true, true, true, false)), (String ((Ascii (false,
        false, true, false, false, true, true, false)), (String ((Ascii
        (false, false, false, false, false, true, false, false)), (String
        ((Ascii (true, false, true, true, false, false, true, false)),
        (String ((Ascii (true, false, false, false, false, false, true,
        false)), (String ((Ascii (true, true, false, false, false, false,
        true, false)), (String ((Ascii (false, true, false, false, true,
        false, true, false)), (String ((Ascii (true, true, true, true, false,
        false, true, false)), EmptyString)))))))))))))))))))))))))))))))),
        (String ((Ascii (true, false, false, true, true, true, true, false)),
        EmptyString)))) :: [])))) :: []))) :: (((String ((Ascii (true, true,
    false, false, true, true, true, false)), (String ((Ascii (false, false,
    true, false, true, true, true, false)), (String ((Ascii (true, false,
    false, false, false, true, true, false)), (String ((Ascii (false, false,
    true, false, true, true, true, false)), (String ((Ascii (true, false,
    true, false, false, true, true, false)), (String ((Ascii (false, false,
    false, false, true, false, true, false)), (String ((Ascii (true, false,
    false, false, false, false, true, false)), (String ((Ascii (false, false,
    true, false, true, false, true, false)), EmptyString)))))))))))))))),
    (block ((SIf ((CByte (Npos (XI (XI (XO (XO (XO (XO XH)))))))),
      (block ((SSetStep st_statePATC) :: (SRetNil :: []))),
      (block ((SRetErr ((String ((Ascii (true, false, false, true, false,
        true, true, false)), (String ((Ascii (false, true, true, true, false,
        true, true, false)), (String ((Ascii (false, false, false, false,
        false, true, false, false)), (String ((Ascii (true, true, false,
        true, false, true, true, false)), (String ((Ascii (true, false, true,
        false, false, true, true, false)), (String ((Ascii (true, false,
        false, true, true, true, true, false)), (String ((Ascii (true, true,
        true, false, true, true, true, false)), (String ((Ascii (true, true,
        true, true, false, true, true, false)), (String ((Ascii (false, true,
        false, false, true, true, true, false)), (String ((Ascii (false,
        false, true, false, false, true, true, false)), (String ((Ascii
        (false, false, false, false, false, true, false, false)), (String
        ((Ascii (false, false, false, false, true, false, true, false)),
        (String ((Ascii (true, false, false, false, false, false, true,
        false)), (String ((Ascii (false, false, true, false, true, false,
        true, false)), (String ((Ascii (true, true, false, false, false,
        false, true, false)), (String ((Ascii (false, false, false, true,
        false, false, true, false)),
        EmptyString)))))))))))))))))))))))))))))))), (String ((Ascii (true,
        true, false, false, false, false, true, false)),
        EmptyString)))) :: [])))) :: []))) :: (((String ((Ascii (true, true,
    false, false, true, true, true, false)), (String ((Ascii (false, false,
    true, false, true, true, true, false)), (String ((Ascii (true, false,
    false, false, false, true, true, false)), (String ((Ascii (false, false,
    true, false, true, true, true, false)), (String ((Ascii (true, false,
    true, false, false, true, true, false)), (String ((Ascii (false, false,
    false, false, true, false, true, false)), (String ((Ascii (true, false,
    false, false, false, false, true, false)), (String ((Ascii (false, false,
    true, false, true, false, true, false)), (String ((Ascii (true, true,
    false, false, false, false, true, false)), EmptyString)))))))))))))))))),
    (block ((SIf ((CByte (Npos (XO (XO (XO (XI (XO (XO XH)))))))),
      (block ((SFound (KeywordEnd, Z0)) :: ((SPush
        st_stateExpectKeyword) :: ((SSetStep
        st_stateParameterOrAnnotation) :: (SRetNil :: []))))),
      (block ((SRetErr ((String ((Ascii (true, false, false, true, false,
        true, true, false)), (String ((Ascii (false, true, true, true, false,
        true, true, false)), (String ((Ascii (false, false, false, false,
        false, true, false, false)), (String ((Ascii (true, true, false,
        true, false, true, true, false)), (String ((Ascii (true, false, true,
        false, false, true, true, false)), (String ((Ascii (true, false,
        false, true, true, true, true, false)), (String ((Ascii (true, true,
        true, false, true, true, true, false)), (String ((Ascii (true, true,
        true, true, false, true, true, false)), (String ((Ascii (false, true,
        false, false, true, true, true, false)), (String ((Ascii (false,
        false, true, false, false, true, true, false)), (String ((Ascii
        (false, false, false, false, false, true, false, false)), (String
        ((Ascii (false, false, false, false, true, false, true, false)),
        (String ((Ascii (true, false, false, false, false, false, true,
        false)), (String ((Ascii (false, false, true, false, true, false,
        true, false)), (String ((Ascii (true, true, false, false, false,
        false, true, false)), (String ((Ascii (false, false, false, true,
        false, false, true, false)),
        EmptyString)))))))))))))))))))))))))))))))), (String ((Ascii (false,
        false, false, true, false, false, true, false)),
        EmptyString)))) :: [])))) :: []))) :: (((String ((Ascii (true, true,
    false, false, true, true, true, false)), (String ((Ascii (false, false,
    true, false, true, true, true, false)), (String ((Ascii (true, false,
    false, false, false, true, true, false)), (String ((Ascii (false, false,
    true, false, true, true, true, false)), (String ((Ascii (true, false,
    true, false, false, true, true, false)), (String ((Ascii (false, false,
    false, false, true, false, true, false)), (String ((Ascii (true, true,
    true, true, false, false, true, false)), EmptyString)))))))))))))),
    (block ((SIf ((CByte (Npos (XI (XI (XO (XO (XI (XO XH)))))))),
      (block ((SSetStep st_statePOS) :: (SRetNil :: []))),
      (block ((SRetErr ((String ((Ascii (true, false, false, true, false,
        true, true, false)), (String ((Ascii (false, true, true, true, false,
        true, true, false)), (String ((Ascii (false, false, false, false,
        false, true, false, false)), (String ((Ascii (true, true, false,
        true, false, true, true, false)), (String ((Ascii (true, false, true,
        false, false, true, true, false)), (String ((Ascii (true, false,
        false, true, true, true, true, false)), (String ((Ascii (true, true,
        true, false, true, true, true, false)), (String ((Ascii (true, true,
        true, true, false, true, true, false)), (String ((Ascii (false, true,
        false, false, true, true, true, false)), (String ((Ascii (false,
        false, true, false, false, true, true, false)), (String ((Ascii
        (false, false, false, false, false, true, false, false)), (String
        ((Ascii (false, false, false, false, true, false, true, false)),
        (String ((Ascii (true, true, true, true, false, false, true, false)),
        (String ((Ascii (true, true, false, false, true, false, true,
        false)), (String ((Ascii (false, false, true, false, true, false,
        true, false)), EmptyString)))))))))))))))))))))))))))))), (String
        ((Ascii (true, true, false, false, true, false, true, false)),
        EmptyString)))) :: [])))) :: []))) :: (((String ((Ascii (true, true,
    false, false, true, true, true, false)), (String ((Ascii (false, false,
    true, false, true, true, true, false)), (String ((Ascii (true, false,
    false, false, false, true, true, false)), (String ((Ascii (false, false,
    true, false, true, true, true, false)), (String ((Ascii (true, false,
    true, false, false, true, true, false)), (String ((Ascii (false, false,
    false, false, true, false, true, false)), (String ((Ascii (true, true,
    true, true, false, false, true, false)), (String ((Ascii (true, true,
    false, false, true, false, true, false)), EmptyString)))))))))))))))),
    (block ((SIf ((CByte (Npos (XO (XO (XI (XO (XI (XO XH)))))))),
      (block ((SFound (KeywordEnd, Z0)) :: ((SPush
        st_stateExpectKeyword) :: ((SSetStep
        st_stateParameterOrAnnotation) :: (SRetNil :: []))))),
      (block ((SRetErr ((String ((Ascii (true, false, false, true, false,
        true, true, false)), (String ((Ascii (false, true, true, true, false,
        true, true, false)), (String ((Ascii (false, false, false, false,
        false, true, false, false)), (String ((Ascii (true, true, false,
        true, false, true, true, false)), (String ((Ascii (true, false, true,
        false, false, true, true, false)), (String ((Ascii (true, false,
        false, true, true, true, true, false)), (String ((Ascii (true, true,
        true, false, true, true, true, false)), (String ((Ascii (true, true,
        true, true, false, true, true, false)), (String ((Ascii (false, true,
        false, false, true, true, true, false)), (String ((Ascii (false,
        false, true, false, false, true, true, false)), (String ((Ascii
        (false, false, false, false, false, true, false, false)), (String
        ((Ascii (false, false, false, false, true, false, true, false)),
        (String ((Ascii (true, true, true, true, false, false, true, false)),
        (String ((Ascii (true, true, false, false, true, false, true,
        false)), (String ((Ascii (false, false, true, false, true, false,
        true, false)), EmptyString)))))))))))))))))))))))))))))), (String
        ((Ascii (false, false, true, false, true, false, true, false)),
        EmptyString)))) :: [])))) :: []))) :: (((String ((Ascii (true, true,
    false, false, true, true, true, false)), (String ((Ascii (false, false,
    true, false, true, true, true, false)), (String ((Ascii (true, false,
    false, false, false, true, true, false)), (String ((Ascii (false, false,
    true, false, true, true, true, false)), (String ((Ascii (true, false,
    true, false, false, true, true, false)), (String ((Ascii (false, false,
    false, false, true, false, true, false)), (String ((Ascii (true, false,
    true, false, true, false, true, false)), EmptyString)))))))))))))),
    (block ((SIf ((CByte (Npos (XO (XO (XI (XO (XI (XO XH)))))))),
      (block ((SFound (KeywordEnd, Z0)) :: ((SPush
        st_stateExpectKeyword) :: ((SSetStep
        st_stateParameterOrAnnotation) :: (SRetNil :: []))))),
      (block ((SRetErr ((String ((Ascii (true, false, false, true, false,
        true, true, false)), (String ((Ascii (false, true, true, true, false,
        true, true, false)), (String ((Ascii (false, false, false, false,
        false, true, false, false)), (String ((Ascii (true, true, false,
        true, false, true, true, false)), (String ((Ascii (true, false, true,
        false, false, true, true, false)), (String ((Ascii (true, false,
        false, true, true, true, true, false)), (String ((Ascii (true, true,
        true, false, true, true, true, false)), (String ((Ascii (true, true,
        true, true, false, true, true, false)), (String ((Ascii (false, true,
        false, false, true, true, true, false)), (String ((Ascii (false,
        false, true, false, false, true, true, false)), (String ((Ascii
        (false, false, false, false, false, true, false, false)), (String
        ((Ascii (false, false, false, false, true, false, true, false)),
        (String ((Ascii (true, false, true, false, true, false, true,
        false)), (String ((Ascii (false, false, true, false, true, false,
        true, false)), EmptyString)))))))))))))))))))))))))))), (String
        ((Ascii (false, false, true, false, true, false, true, false)),
        EmptyString)))) :: [])))) :: []))) :: (((String ((Ascii (true, true,
    false, false, true, true, true, false)), (String ((Ascii (false, false,
    true, false, true, true, true, false)), (String ((Ascii (true, false,
    false, false, false, true, true, false)), (String ((Ascii (false, false,
    true, false, true, true, true, false)), (String ((Ascii (true, false,
    true, false, false, true, true, false)), (String ((Ascii (false, false,
    false, false, true, false, true, false)), (String ((Ascii (true, false,
    false, false, false, true, true, false)), EmptyString)))))))))))))),
    (block ((SIf ((CByte (Npos (XO (XO (XI (XO (XI (XI XH)))))))),
      (block ((SSetStep st_statePat) :: (SRetNil :: []))),
      (block ((SIf ((CByte (Npos (XO (XI (XO (XO (XI (XI XH)))))))),
        (block ((SSetStep st_statePar) :: (SRetNil :: []))),
        (block ((SRetErr ((String ((Ascii (true, false, false, true, false,
          true, true, false)), (String ((Ascii (false, true, true, true,
          false, true, true, false)), (String ((Ascii (false, false, false,
          false, false, true, false, false)), (String ((Ascii (false, false,
          true, false, false, true, true, false)), (String ((Ascii (true,
          false, false, true, false, true, true, false)), (String ((Ascii
          (false, true, false, false, true, true, true, false)), (String
          ((Ascii (true, false, true, false, false, true, true, false)),
          (String ((Ascii (true, true, false, false, false, true, true,
          false)), (String ((Ascii (false, false, true, false, true, true,
          true, false)), (String ((Ascii (true, false, false, true, false,
          true, true, false)), (String ((Ascii (false, true, true, false,
          true, true, true, false)), (String ((Ascii (true, false, true,
          false, false, true, true, false)), (String ((Ascii (false, false,
          false, false, false, true, false, false)), (String ((Ascii (false,
          true, true, true, false, true, true, false)), (String ((Ascii
          (true, false, false, false, false, true, true, false)), (String
          ((Ascii (true, false, true, true, false, true, true, false)),
          (String ((Ascii (true, false, true, false, false, true, true,
          false)), EmptyString)))))))))))))))))))))))))))))))))),
          EmptyString)) :: [])))) :: [])))) :: []))) :: (((String ((Ascii
    (true, true, false, false, true, true, true, false)), (String ((Ascii
    (false, false, true, false, true, true, true, false)), (String ((Ascii
    (true, false, false, false, false, true, true, false)), (String ((Ascii
    (false, false, true, false, true, true, true, false)), (String ((Ascii
    (true, false, true, false, false, true, true, false)), (String ((Ascii
    (false, false, false, false, true, false, true, false)), (String ((Ascii
    (true, false, false, false, false, true, true, false)), (String ((Ascii
    (false, true, false, false, true, true, true, false)),
    EmptyString)))))))))))))))),
    (block ((SIf ((CByte (Npos (XI (XO (XO (XO (XO (XI XH)))))))),
      (block ((SSetStep st_statePara) :: (SRetNil :: []))),
      (block ((SRetErr ((String ((Ascii (true, false, false, true, false,
        true, true, false)), (String ((Ascii (false, true, true, true, false,
        true, true, false)), (String ((Ascii (false, false, false, false,
        false, true, false, false)), (String ((Ascii (true, true, false,
        true, false, true, true, false)), (String ((Ascii (true, false, true,
        false, false, true, true, false)), (String ((Ascii (true, false,
        false, true, true, true, true, false)), (String ((Ascii (true, true,
        true, false, true, true, true, false)), (String ((Ascii (true, true,
        true, true, false, true, true, false)), (String ((Ascii (false, true,
        false, false, true, true, true, false)), (String ((Ascii (false,
        false, true, false, false, true, true, false)), (String ((Ascii
        (false, false, false, false, false, true, false, false)), (String
        ((Ascii (false, false, false, false, true, false, true, false)),
        (String ((Ascii (true, false, false, false, false, true, true,
        false)), (String ((Ascii (false, true, false, false, true, true,
        true, false)), (String ((Ascii (true, false, false, false, false,
        true, true, false)), (String ((Ascii (true, false, true, true, false,
        true, true, false)), (String ((Ascii (true, true, false, false, true,
        true, true, false)), EmptyString)))))))))))))))))))))))))))))))))),
        (String ((Ascii (true, false, false, false, false, true, true,
        false)), EmptyString)))) :: [])))) :: []))) :: (((String ((Ascii
    (true, true, false, false, true, true, true, false)), (String ((Ascii
    (false, false, true, false, true, true, true, false)), (String ((Ascii
    (true, false, false, false, false, true, true, false)), (String ((Ascii
    (false, false, true, false, true, true, true, false)), (String ((Ascii
    (true, false, true, false, false, true, true, false)), (String ((Ascii
    (false, false, false, false, true, false, true, false)), (String ((Ascii
    (true, false, false, false, false, true, true, false)), (String ((Ascii
    (false, true, false, false, true, true, true, false)), (String ((Ascii
    (true, false, false, false, false, true, true, false)),
    EmptyString)))))))))))))))))),
    (block ((SIf ((CByte (Npos (XI (XO (XI (XI (XO (XI XH)))))))),
      (block ((SSetStep st_stateParam) :: (SRetNil :: []))),
      (block ((SRetErr ((String ((Ascii (true, false, false, true, false,
        true, true, false)), (String ((Ascii (false, true, true, true, false,
        true, true, false)), (String ((Ascii (false, false, false, false,
        false, true, false, false)), (String ((Ascii (true, true, false,
        true, false, true, true, false)), (String ((Ascii (true, false, true,
        false, false, true, true, false)), (String ((Ascii (true, false,
        false, true, true, true, true, false)), (String ((Ascii (true, true,
        true, false, true, true, true, false)), (String ((Ascii (true, true,
        true, true, false, true, true, false)), (String ((Ascii (false, true,
        false, false, true, true, true, false)), (String ((Ascii (false,
        false, true, false, false, true, true, false)), (String ((Ascii
        (false, false, false, false, false, true, false, false)), (String
        ((Ascii (false, false, false, false, true, false, true, false)),
        (String ((Ascii (true, false, false, false, false, true, true,
        false)), (String ((Ascii (false, true, false, false, true, true,
        true, false)), (String ((Ascii (true, false, false, false, false,
        true, true, false)), (String ((Ascii (true, false, true, true, false,
        true, true, false)), (String ((Ascii (true, true, false, false, true,
        true, true, false)), EmptyString)))))))))))))))))))))))))))))))))),
        (String ((Ascii (true, false, true, true, false, true, true, false)),
        EmptyString)))) :: [])))) :: []))) :: (((String ((Ascii (true, true,
    false, false, true, true, true, false)), (String ((Ascii (false, false,
    true, false, true, true, true, false)), (String ((Ascii (true, false,
    false, false, false, true, true, false)), (String ((Ascii (false, false,
    true, false, true, true, true, false)), (String ((Ascii (true, false,
    true, false, false, true, true, false)), (String ((Ascii (false, false,
    false, false, true, false, true, false)), (String ((Ascii (true, false,
    false, false, false, true, true, false)), (String ((Ascii (false, true,
    false, false, true, true, true, false)), (String ((Ascii (true, false,
    false, false, false, true, true, false)), (String ((Ascii (true, false,
    true, true, false, true, true, false)), EmptyString)))))))))))))))))))),
    (block ((SIf ((CByte (Npos (XI (XI (XO (XO (XI (XI XH)))))))),
      (block ((SFound (KeywordEnd, Z0)) :: ((SPush
        st_stateParamsBody) :: ((SSetStep
        st_stateParameterOrAnnotation) :: (SRetNil :: []))))),
      (block ((SRetErr ((String ((Ascii (true, false, false, true, false,
        true, true, false)), (String ((Ascii (false, true, true, true, false,
        true, true, false)), (String ((Ascii (false, false, false, false,
        false, true, false, false)), (String ((Ascii (true, true, false,
        true, false, true, true, false)), (String ((Ascii (true, false, true,
        false, false, true, true, false)), (String ((Ascii (true, false,
        false, true, true, true, true, false)), (String ((Ascii (true, true,
        true, false, true, true, true, false)), (String ((Ascii (true, true,
        true, true, false, true, true, false)), (String ((Ascii (false, true,
        false, false, true, true, true, false)), (String ((Ascii (false,
        false, true, false, false, true, true, false)), (String ((Ascii
        (false, false, false, false, false, true, false, false)), (String
        ((Ascii (false, false, false, false, true, false, true, false)),
        (String ((Ascii (true, false, false, false, false, true, true,
        false)), (String ((Ascii (false, true, false, false, true, true,
        true, false)), (String ((Ascii (true, false, false, false, false,
        true, true, false)), (String ((Ascii (true, false, true, true, false,
        true, true, false)), (String ((Ascii (true, true, false, false, true,
        true, true, false)), EmptyString)))))))))))))))))))))))))))))))))),
        (String ((Ascii (true, true, false, false, true, true, true, false)),
        EmptyString)))) :: [])))) :: []))) :: (((String ((Ascii (true, true,
    false, false, true, true, true, false)), (String ((Ascii (false, false,
    true, false, true, true, true, false)), (String ((Ascii (true, false,
    false, false, false, true, true, false)), (String ((Ascii (false, false,
    true, false, true, true, true, false)), (String ((Ascii (true, false,
    true, false, false, true, true, false)), (String ((Ascii (false, false,
    false, false, true, false, true, false)), (String ((Ascii (true, false,
    false, false, false, true, true, false)), (String ((Ascii (false, true,
    false, false, true, true, true, false)), (String ((Ascii (true, false,
    false, false, false, true, true, false)), (String ((Ascii (true, false,
    true, true, false, true, true, false)), (String ((Ascii (true, false,
    true, false, false, true, true, false)), (String ((Ascii (false, false,
    true, false, true, true, true, false)), (String ((Ascii (true, false,
    true, false, false, true, true, false)), (String ((Ascii (false, true,
    false, false, true, true, true, false)), (String ((Ascii (true, false,
    false, true, false, false, true, false)), (String ((Ascii (false, true,
    true, true, false, true, true, false)), (String ((Ascii (true, false,
    false, false, true, false, true, false)), (String ((Ascii (true, false,
    true, false, true, true, true, false)), (String ((Ascii (true, true,
    true, true, false, true, true, false)), (String ((Ascii (false, false,
    true, false, true, true, true, false)), (String ((Ascii (true, false,
    true, false, false, true, true, false)), (String ((Ascii (false, false,
    true, false, false, true, true, false)),
    EmptyString)))))))))))))))))))))))))))))))))))))))))))),
    (block ((SIf ((COr (CNewLine, (CByte N0))),
      (block ((SRetErr ((String ((Ascii (true, false, false, true, false,
        true, true, false)), (String ((Ascii (false, true, true, true, false,
        true, true, false)), (String ((Ascii (false, false, false, false,
        false, true, false, false)), (String ((Ascii (false, false, true,
        false, false, true, true, false)), (String ((Ascii (true, false,
        false, true, false, true, true, false)), (String ((Ascii (false,
        true, false, false, true, true, true, false)), (String ((Ascii (true,
        false, true, false, false, true, true, false)), (String ((Ascii
        (true, true, false, false, false, true, true, false)), (String
        ((Ascii (false, false, true, false, true, true, true, false)),
        (String ((Ascii (true, false, false, true, false, true, true,
        false)), (String ((Ascii (false, true, true, false, true, true, true,
        false)), (String ((Ascii (true, false, true, false, false, true,
        true, false)), (String ((Ascii (false, false, false, false, false,
        true, false, false)), (String ((Ascii (false, false, false, false,
        true, true, true, false)), (String ((Ascii (true, false, false,
        false, false, true, true, false)), (String ((Ascii (false, true,
        false, false, true, true, true, false)), (String ((Ascii (true,
        false, false, false, false, true, true, false)), (String ((Ascii
        (true, false, true, true, false, true, true, false)), (String ((Ascii
        (true, false, true, false, false, true, true, false)), (String
        ((Ascii (false, false, true, false, true, true, true, false)),
        (String ((Ascii (true, false, true, false, false, true, true,
        false)), (String ((Ascii (false, true, false, false, true, true,
        true, false)),
        EmptyString)))))))))))))))))))))))))))))))))))))))))))), (String
        ((Ascii (true, true, false, false, false, true, true, false)),
        (String ((Ascii (false, false, true, true, false, true, true,
        false)), (String ((Ascii (true, true, true, true, false, true, true,
        false)), (String ((Ascii (true, true, false, false, true, true, true,
        false)), (String ((Ascii (true, false, false, true, false, true,
        true, false)), (String ((Ascii (false, true, true, true, false, true,
        true, false)), (String ((Ascii (true, true, true, false, false, true,
        true, false)), (String ((Ascii (false, false, false, false, false,
        true, false, false)), (String ((Ascii (true, false, false, false,
        true, true, true, false)), (String ((Ascii (true, false, true, false,
        true, true, true, false)), (String ((Ascii (true, true, true, true,
        false, true, true, false)), (String ((Ascii (false, false, true,
        false, true, true, true, false)), (String ((Ascii (true, false,
        false, false, false, true, true, false)), (String ((Ascii (false,
        false, true, false, true, true, true, false)), (String ((Ascii (true,
        false, false, true, false, true, true, false)), (String ((Ascii
        (true, true, true, true, false, true, true, false)), (String ((Ascii
        (false, true, true, true, false, true, true, false)), (String ((Ascii
        (false, false, false, false, false, true, false, false)), (String
        ((Ascii (true, false, true, true, false, true, true, false)), (String
        ((Ascii (true, false, false, false, false, true, true, false)),
        (String ((Ascii (false, true, false, false, true, true, true,
        false)), (String ((Ascii (true, true, false, true, false, true, true,
        false)),
        EmptyString)))))))))))))))))))))))))))))))))))))))))))))) :: [])),
      (block ((SIf ((CByte (Npos (XO (XO (XI (XI (XI (XO XH)))))))),
        (block ((SSetStep st_stateParameterInQuotedSlash) :: [])),
        (block ((SIf ((CByte (Npos (XO (XI (XO (XO (XO XH))))))),
          (block ((SFound (ParameterEnd, Z0)) :: ((SSetStep
            st_stateParameterOrAnnotation) :: []))), SSkip)) :: [])))) :: [])))) :: (SRetNil :: [])))) :: (((String
    ((Ascii (true, true, false, false, true, true, true, false)), (String
    ((Ascii (false, false, true, false, true, true, true, false)), (String
    ((Ascii (true, false, false, false, false, true, true, false)), (String
    ((Ascii (false, false, true, false, true, true, true, false)), (String
    ((Ascii (true, false, true, false, false, true, true, false)), (String
    ((Ascii (false, false, false, false, true, false, true, false)), (String
    ((Ascii (true, false, false, false, false, true, true, false)), (String
    ((Ascii (false, true, false, false, true, true, true, false)), (String
    ((Ascii (true, false, false, false, false, true, true, false)), (String
    ((Ascii (true, false, true, true, false, true, true, false)), (String
    ((Ascii (true, false, true, false, false, true, true, false)), (String
    ((Ascii (false, false, true, false, true, true, true, false)), (String
    ((Ascii (true, false, true, false, false, true, true, false)), (String
    ((Ascii (false, true, false, false, true, true, true, false)), (String
    ((Ascii (true, false, false, true, false, false, true, false)), (String
    ((Ascii (false, true, true, true, false, true, true, false)), (String
    ((Ascii (true, false, false, false, true, false, true, false)), (String
    ((Ascii (true, false, true, false, true, true, true, false)), (String
    ((Ascii (true, true, true, true, false, true, true, false)), (String
    ((Ascii (false, false, true, false, true, true, true, false)), (String
    ((Ascii (true, false, true, false, false, true, true, false)), (String
    ((Ascii (false, false, true, false, false, true, true, false)), (String
    ((Ascii (true, true, false, false, true, false, true, false)), (String
    ((Ascii (false, false, true, true, false, true, true, false)), (String
    ((Ascii (true, false, false, false, false, true, true, false)), (String
    ((Ascii (true, true, false, false, true, true, true, false)), (String
    ((Ascii (false, false, false, true, false, true, true, false)),
    EmptyString)))))))))))))))))))))))))))))))))))))))))))))))))))))),
    (block ((SIf ((CByte (Npos (XO (XO (XI (XI (XI (XO XH)))))))),
      (block ((SSetStep st_stateParameterInQuoted) :: [])),
      (block ((SIf ((CByte (Npos (XO (XI (XO (XO (XO XH))))))),
        (block ((SSetStep st_stateParameterInQuoted) :: [])),
        (block ((SRetErr ((String ((Ascii (true, true, true, false, true,
          true, true, false)), (String ((Ascii (false, false, false, true,
          false, true, true, false)), (String ((Ascii (true, false, true,
          false, false, true, true, false)), (String ((Ascii (false, true,
          true, true, false, true, true, false)), (String ((Ascii (false,
          false, false, false, false, true, false, false)), (String ((Ascii
          (true, false, true, false, false, true, true, false)), (String
          ((Ascii (true, true, false, false, true, true, true, false)),
          (String ((Ascii (true, true, false, false, false, true, true,
          false)), (String ((Ascii (true, false, false, false, false, true,
          true, false)), (String ((Ascii (false, false, false, false, true,
          true, true, false)), (String ((Ascii (true, false, false, true,
          false, true, true, false)), (String ((Ascii (false, true, true,
          true, false, true, true, false)), (String ((Ascii (true, true,
          true, false, false, true, true, false)), (String ((Ascii (false,
          false, false, false, false, true, false, false)), (String ((Ascii
          (true, true, false, false, false, true, true, false)), (String
          ((Ascii (false, false, false, true, false, true, true, false)),
          (String ((Ascii (true, false, false, false, false, true, true,
          false)), (String ((Ascii (false, true, false, false, true, true,
          true, false)), (String ((Ascii (true, false, false, false, false,
          true, true, false)), (String ((Ascii (true, true, false, false,
          false, true, true, false)), (String ((Ascii (false, false, true,
          false, true, true, true, false)), (String ((Ascii (true, false,
          true, false, false, true, true, false)), (String ((Ascii (false,
          true, false, false, true, true, true, false)), (String ((Ascii
          (true, true, false, false, true, true, true, false)), (String
          ((Ascii (false, false, false, false, false, true, false, false)),
          (String ((Ascii (true, false, false, true, false, true, true,
          false)), (String ((Ascii (false, true, true, true, false, true,
          true, false)), (String ((Ascii (false, false, false, false, false,
          true, false, false)), (String ((Ascii (false, false, false, false,
          true, true, true, false)), (String ((Ascii (true, false, false,
          false, false, true, true, false)), (String ((Ascii (false, true,
          false, false, true, true, true, false)), (String ((Ascii (true,
          false, false, false, false, true, true, false)), (String ((Ascii
          (true, false, true, true, false, true, true, false)), (String
          ((Ascii (true, false, true, false, false, true, true, false)),
          (String ((Ascii (false, false, true, false, true, true, true,
          false)), (String ((Ascii (true, false, true, false, false, true,
          true, false)), (String ((Ascii (false, true, false, false, true,
          true, true, false)), (String ((Ascii (true, true, false, false,
          true, true, true, false)),
          EmptyString)))))))))))))))))))))))))))))))))))))))))))))))))))))))))))))))))))))))))))),
          (String ((Ascii (true, false, false, false, true, true, true,
          false)), (String ((Ascii (true, false, true, false, true, true,
          true, false)), (String ((Ascii (true, true, true, true, false,
          true, true, false)), (String ((Ascii (false, false, true, false,
          true, true, true, false)), (String ((Ascii (true, false, false,
          false, false, true, true, false)), (String ((Ascii (false, false,
          true, false, true, true, true, false)), (String ((Ascii (true,
          false, false, true, false, true, true, false)), (String ((Ascii
          (true, true, true, true, false, true, true, false)), (String
          ((Ascii (false, true, true, true, false, true, true, false)),
          (String ((Ascii (false, false, false, false, false, true, false,
          false)), (String ((Ascii (true, false, true, true, false, true,
          true, false)), (String ((Ascii (true, false, false, false, false,
          true, true, false)), (String ((Ascii (false, true, false, false,
          true, true, true, false)), (String ((Ascii (true, true, false,
          true, false, true, true, false)), (String ((Ascii (true, true,
          false, false, true, true, true, false)), (String ((Ascii (false,
          false, false, false, false, true, false, false)), (String ((Ascii
          (true, true, true, true, false, true, true, false)), (String
          ((Ascii (false, true, false, false, true, true, true, false)),
          (String ((Ascii (false, false, false, false, false, true, false,
          false)), (String ((Ascii (true, true, false, false, true, true,
          true, false)), (String ((Ascii (false, false, true, true, false,
          true, true, false)), (String ((Ascii (true, false, false, false,
          false, true, true, false)), (String ((Ascii (true, true, false,
          false, true, true, true, false)), (String ((Ascii (false, false,
          false, true, false, true, true, false)),
          EmptyString)))))))))))))))))))))))))))))))))))))))))))))))))) :: [])))) :: [])))) :: (SRetNil :: [])))) :: (((String
    ((Ascii (true, true, false, false, true, true, true, false)), (String
    ((Ascii (false, false, true, false, true, true, true, false)), (String
    ((Ascii (true, false, false, false, false, true, true, false)), (String
    ((Ascii (false, false, true, false, true, true, true, false)), (String
    ((Ascii (true, false, true, false, false, true, true, false)), (String
    ((Ascii (false, false, false, false, true, false, true, false)), (String
    ((Ascii (true, false, false, false, false, true, true, false)), (String
    ((Ascii (false, true, false, false, true, true, true, false)), (String
    ((Ascii (true, false, false, false, false, true, true, false)), (String
    ((Ascii (true, false, true, true, false, true, true, false)), (String
    ((Ascii (true, false, true, false, false, true, true, false)), (String
    ((Ascii (false, false, true, false, true, true, true, false)), (String
    ((Ascii (true, false, true, false, false, true, true, false)), (String
    ((Ascii (false, true, false, false, true, true, true, false)), (String
    ((Ascii (true, true, true, true, false, false, true, false)), (String
    ((Ascii (false, true, false, false, true, true, true, false)), (String
    ((Ascii (true, false, false, false, false, false, true, false)), (String
    ((Ascii (false, true, true, true, false, true, true, false)), (String
    ((Ascii (false, true, true, true, false, true, true, false)), (String
    ((Ascii (true, true, true, true, false, true, true, false)), (String
    ((Ascii (false, false, true, false, true, true, true, false)), (String
    ((Ascii (true, false, false, false, false, true, true, false)), (String
    ((Ascii (false, false, true, false, true, true, true, false)), (String
    ((Ascii (true, false, false, true, false, true, true, false)), (String
    ((Ascii (true, true, true, true, false, true, true, false)), (String
    ((Ascii (false, true, true, true, false, true, true, false)),
    EmptyString)))))))))))))))))))))))))))))))))))))))))))))))))))),
    (block ((SIf (CWhitespace,
      (block ((SSetStep
        st_stateParameterOrAnnotationAfterFirstSpace) :: (SRetNil :: []))),
      (block ((SIf ((CByte (Npos (XI (XI (XO (XO (XO XH))))))),
        (block (SPushCur :: ((SSetStep
          st_stateCommentStarted) :: (SRetNil :: [])))),
        (block ((SIf ((COr (CNewLine, (CByte N0))),
          (block (SPop :: (SRetNil :: []))),
          (block ((SIf ((CByte (Npos (XI (XI (XI (XI (XO XH))))))),
            (block ((SSetStep st_stateAnnotationSign2) :: (SRetNil :: []))),
            (block ((SRetErr ((String ((Ascii (true, false, false, false,
              false, true, true, false)), (String ((Ascii (false, true, true,
              false, false, true, true, false)), (String ((Ascii (false,
              false, true, false, true, true, true, false)), (String ((Ascii
              (true, false, true, false, false, true, true, false)), (String
              ((Ascii (false, true, false, false, true, true, true, false)),
              (String ((Ascii (false, false, false, false, false, true,
              false, false)), (String ((Ascii (false, false, true, false,
              false, true, true, false)), (String ((Ascii (true, false,
              false, true, false, true, true, false)), (String ((Ascii
              (false, true, false, false, true, true, true, false)), (String
              ((Ascii (true, false, true, false, false, true, true, false)),
              (String ((Ascii (true, true, false, false, false, true, true,
              false)), (String ((Ascii (false, false, true, false, true,
              true, true, false)), (String ((Ascii (true, false, false, true,
              false, true, true, false)), (String ((Ascii (false, true, true,
              false, true, true, true, false)), (String ((Ascii (true, false,
              true, false, false, true, true, false)), (String ((Ascii
              (false, false, false, false, false, true, false, false)),
              (String ((Ascii (true, true, false, true, false, true, true,
              false)), (String ((Ascii (true, false, true, false, false,
              true, true, false)), (String ((Ascii (true, false, false, true,
              true, true, true, false)), (String ((Ascii (true, true, true,
              false, true, true, true, false)), (String ((Ascii (true, true,
              true, true, false, true, true, false)), (String ((Ascii (false,
              true, false, false, true, true, true, false)), (String ((Ascii
              (false, false, true, false, false, true, true, false)),
              EmptyString)))))))))))))))))))))))))))))))))))))))))))))),
              (String ((Ascii (false, false, false, false, true, true, true,
              false)), (String ((Ascii (true, false, false, false, false,
              true, true, false)), (String ((Ascii (false, true, false,
              false, true, true, true, false)), (String ((Ascii (true, false,
              false, false, false, true, true, false)), (String ((Ascii
              (true, false, true, true, false, true, true, false)), (String
              ((Ascii (true, false, true, false, false, true, true, false)),
              (String ((Ascii (false, false, true, false, true, true, true,
              false)), (String ((Ascii (true, false, true, false, false,
              true, true, false)), (String ((Ascii (false, true, false,
              false, true, true, true, false)),
              EmptyString)))))))))))))))))))) :: [])))) :: [])))) :: [])))) :: [])))) :: []))) :: (((String
    ((Ascii (true, true, false, false, true, true, true, false)), (String
    ((Ascii (false, false, true, false, true, true, true, false)), (String
    ((Ascii (true, false, false, false, false, true, true, false)), (String
    ((Ascii (false, false, true, false, true, true, true, false)), (String
    ((Ascii (true, false, true, false, false, true, true, false)), (String
    ((Ascii (false, false, false, false, true, false, true, false)), (String
    ((Ascii (true, false, false, false, false, true, true, false)), (String
    ((Ascii (false, true, false, false, true, true, true, false)), (String
    ((Ascii (true, false, false, false, false, true, true, false)), (String
    ((Ascii (true, false, true, true, false, true, true, false)), (String
    ((Ascii (true, false, true, false, false, true, true, false)), (String
    ((Ascii (false, false, true, false, true, true, true, false)), (String
    ((Ascii (true, false, true, false, false, true, true, false)), (String
    ((Ascii (false, true, false, false, true, true, true, false)), (String
    ((Ascii (true, true, true, true, false, false, true, false)), (String
    ((Ascii (false, true, false, false, true, true, true, false)), (String
    ((Ascii (true, false, false, false, false, false, true, false)), (String
    ((Ascii (false, true, true, true, false, true, true, false)), (String
    ((Ascii (false, true, true, true, false, true, true, false)), (String
    ((Ascii (true, true, true, true, false, true, true, false)), (String
    ((Ascii (false, false, true, false, true, true, true, false)), (String
    ((Ascii (true, false, false, false, false, true, true, false)), (String
    ((Ascii (false, false, true, false, true, true, true, false)), (String
    ((Ascii (true, false, false, true, false, true, true, false)), (String
    ((Ascii (true, true, true, true, false, true, true, false)), (String
    ((Ascii (false, true, true, true, false, true, true, false)), (String
    ((Ascii (true, false, false, false, false, false, true, false)), (String
    ((Ascii (false, true, true, false, false, true, true, false)), (String
    ((Ascii (false, false, true, false, true, true, true, false)), (String
    ((Ascii (true, false, true, false, false, true, true, false)), (String
    ((Ascii (false, true, false, false, true, true, true, false)), (String
    ((Ascii (false, true, true, false, false, false, true, false)), (String
    ((Ascii (true, false, false, true, false, true, true, false)), (String
    ((Ascii (false, true, false, false, true, true, true, false)), (String
    ((Ascii (true, true, false, false, true, true, true, false)), (String
    ((Ascii (false, false, true, false, true, true, true, false)), (String
    ((Ascii (true, true, false, false, true, false, true, false)), (String
    ((Ascii (false, false, false, false, true, true, true, false)), (String
    ((Ascii (true, false, false, false, false, true, true, false)), (String
    ((Ascii (true, true, false, false, false, true, true, false)), (String
    ((Ascii (true, false, true, false, false, true, true, false)),
    EmptyString)))))))))))))))))))))))))))))))))))))))))))))))))))))))))))))))))))))))))))))))))),
    (block ((SIf (CWhitespace, (block (SRetNil :: [])),
      (block ((SIf ((CByte (Npos (XI (XI (XO (XO (XO XH))))))),
        (block (SPushCur :: ((SSetStep
          st_stateCommentStarted) :: (SRetNil :: [])))),
        (block ((SIf ((COr (CNewLine, (CByte N0))),
          (block (SPop :: (SRetNil :: []))),
          (block ((SIf ((CByte (Npos (XI (XI (XI (XI (XO XH))))))),
            (block ((SSetStep st_stateAnnotationSign2) :: (SRetNil :: []))),
            (block ((SSetStep st_stateParameterStart) :: ((SRetCall
              st_stateParameterStart) :: []))))) :: [])))) :: [])))) :: [])))) :: []))) :: (((String
    ((Ascii (true, true, false, false, true, true, true, false)), (String
    ((Ascii (false, false, true, false, true, true, true, false)), (String
    ((Ascii (true, false, false, false, false, true, true, false)), (String
    ((Ascii (false, false, true, false, true, true, true, false)), (String
    ((Ascii (true, false, true, false, false, true, true, false)), (String
    ((Ascii (false, false, false, false, true, false, true, false)), (String
    ((Ascii (true, false, false, false, false, true, true, false)), (String
    ((Ascii (false, true, false, false, true, true, true, false)), (String
    ((Ascii (true, false, false, false, false, true, true, false)), (String
    ((Ascii (true, false, true, true, false, true, true, false)), (String
    ((Ascii (true, false, true, false, false, true, true, false)), (String
    ((Ascii (false, false, true, false, true, true, true, false)), (String
    ((Ascii (true, false, true, false, false, true, true, false)), (String
    ((Ascii (false, true, false, false, true, true, true, false)), (String
    ((Ascii (true, true, false, false, true, false, true, false)), (String
    ((Ascii (false, false, true, false, true, true, true, false)), (String
    ((Ascii (true, false, false, false, false, true, true, false)), (String
    ((Ascii (false, true, false, false, true, true, true, false)), (String
    ((Ascii (false, false, true, false, true, true, true, false)),
    EmptyString)))))))))))))))))))))))))))))))))))))),
    (block ((SFound (ParameterBegin, Z0)) :: ((SIf ((CByte (Npos (XO (XI (XO
      (XO (XO XH))))))),
      (block ((SSetStep st_stateParameterInQuoted) :: [])),
      (block ((SIf (CNewLine,
        (block ((SRetErr ((String ((Ascii (true, false, false, true, false,
          true, true, false)), (String ((Ascii (false, true, true, true,
          false, true, true, false)), (String ((Ascii (false, false, false,
          false, false, true, false, false)), (String ((Ascii (false, false,
          true, false, false, true, true, false)), (String ((Ascii (true,
          false, false, true, false, true, true, false)), (String ((Ascii
          (false, true, false, false, true, true, true, false)), (String
          ((Ascii (true, false, true, false, false, true, true, false)),
          (String ((Ascii (true, true, false, false, false, true, true,
          false)), (String ((Ascii (false, false, true, false, true, true,
          true, false)), (String ((Ascii (true, false, false, true, false,
          true, true, false)), (String ((Ascii (false, true, true, false,
          true, true, true, false)), (String ((Ascii (true, false, true,
          false, false, true, true, false)), (String ((Ascii (false, false,
          false, false, false, true, false, false)), (String ((Ascii (false,
          false, false, false, true, true, true, false)), (String ((Ascii
          (true, false, false, false, false, true, true, false)), (String
          ((Ascii (false, true, false, false, true, true, true, false)),
          (String ((Ascii (true, false, false, false, false, true, true,
          false)), (String ((Ascii (true, false, true, true, false, true,
          true, false)), (String ((Ascii (true, false, true, false, false,
          true, true, false)), (String ((Ascii (false, false, true, false,
          true, true, true, false)), (String ((Ascii (true, false, true,
          false, false, true, true, false)), (String ((Ascii (false, true,
          false, false, true, true, true, false)),
          EmptyString)))))))))))))))))))))))))))))))))))))))))))),
          EmptyString)) :: [])),
        (block ((SSetStep st_stateParameterWoQuoted) :: [])))) :: [])))) :: (SRetNil :: []))))) :: (((String
    ((Ascii (true, true, false, false, true, true, true, false)), (String
    ((Ascii (false, false, true, false, true, true, true, false)), (String
    ((Ascii (true, false, false, false, false, true, true, false)), (String
    ((Ascii (false, false, true, false, true, true, true, false)), (String
    ((Ascii (true, false, true, false, false, true, true, false)), (String
    ((Ascii (false, false, false, false, true, false, true, false)), (String
    ((Ascii (true, false, false, false, false, true, true, false)), (String
    ((Ascii (false, true, false, false, true, true, true, false)), (String
    ((Ascii (true, false, false, false, false, true, true, false)), (String
    ((Ascii (true, false, true, true, false, true, true, false)), (String
    ((Ascii (true, false, true, false, false, true, true, false)), (String
    ((Ascii (false, false, true, false, true, true, true, false)), (String
    ((Ascii (true, false, true, false, false, true, true, false)), (String
    ((Ascii (false, true, false, false, true, true, true, false)), (String
    ((Ascii (true, true, true, false, true, false, true, false)), (String
    ((Ascii (true, true, true, true, false, true, true, false)), (String
    ((Ascii (true, false, false, false, true, false, true, false)), (String
    ((Ascii (true, false, true, false, true, true, true, false)), (String
    ((Ascii (true, true, true, true, false, true, true, false)), (String
    ((Ascii (false, false, true, false, true, true, true, false)), (String
    ((Ascii (true, false, true, false, false, true, true, false)), (String
    ((Ascii (false, false, true, false, false, true, true, false)),
    EmptyString)))))))))))))))))))))))))))))))))))))))))))),
    (block ((SIf ((COr (CWhitespace, (COr (CNewLine, (COr ((CByte (Npos (XI
      (XI (XO (XO (XO XH))))))), (CByte N0))))))),
      (block ((SFound (ParameterEnd, (Zneg XH))) :: ((SSetStep
        st_stateParameterOrAnnotation) :: (SRetRedispatch :: [])))),
      SSkip)) :: (SRetNil :: [])))) :: (((String ((Ascii (true, true, false,
    false, true, true, true, false)), (String ((Ascii (false, false, true,
    false, true, true, true, false)), (String ((Ascii (true, false, false,
    false, false, true, true, false)), (String ((Ascii (false, false, true,
    false, true, true, true, false)), (String ((Ascii (true, false, true,
    false, false, true, true, false)), (String ((Ascii (false, false, false,
    false, true, false, true, false)), (String ((Ascii (true, false, false,
    false, false, true, true, false)), (String ((Ascii (false, true, false,
    false, true, true, true, false)), (String ((Ascii (true, false, false,
    false, false, true, true, false)), (String ((Ascii (true, false, true,
    true, false, true, true, false)), (String ((Ascii (true, true, false,
    false, true, true, true, false)), (String ((Ascii (false, true, false,
    false, false, false, true, false)), (String ((Ascii (true, true, true,
    true, false, true, true, false)), (String ((Ascii (false, false, true,
    false, false, true, true, false)), (String ((Ascii (true, false, false,
    true, true, true, true, false)),
    EmptyString)))))))))))))))))))))))))))))),
    (block ((SIf ((CByte (Npos (XO (XO (XO (XI (XO XH))))))),
      (block ((SFound (ContextOpen, Z0)) :: (SRetNil :: []))),
      (block ((SIf ((COr (CWhitespace, CNewLine)), (block (SRetNil :: [])),
        (block ((SIf ((CByte (Npos (XI (XI (XO (XO (XO XH))))))),
          (block (SPushCur :: ((SSetStep
            st_stateCommentStarted) :: (SRetNil :: [])))),
          (block ((SRetCall st_stateJSchema) :: [])))) :: [])))) :: [])))) :: []))) :: (((String
    ((Ascii (true, true, false, false, true, true, true, false)), (String
    ((Ascii (false, false, true, false, true, true, true, false)), (String
    ((Ascii (true, false, false, false, false, true, true, false)), (String
    ((Ascii (false, false, true, false, true, true, true, false)), (String
    ((Ascii (true, false, true, false, false, true, true, false)), (String
    ((Ascii (false, false, false, false, true, false, true, false)), (String
    ((Ascii (true, false, false, false, false, true, true, false)), (String
    ((Ascii (false, false, true, false, true, true, true, false)),
    EmptyString)))))))))))))))),
    (block ((SIf ((CByte (Npos (XO (XO (XO (XI (XO (XI XH)))))))),
      (block ((SFound (KeywordEnd, Z0)) :: ((SPush
        st_statePathBody) :: ((SSetStep
        st_stateParameterOrAnnotation) :: (SRetNil :: []))))),
      (block ((SRetErr ((String ((Ascii (true, false, false, true, false,
        true, true, false)), (String ((Ascii (false, true, true, true, false,
        true, true, false)), (String ((Ascii (false, false, false, false,
        false, true, false, false)), (String ((Ascii (true, true, false,
        true, false, true, true, false)), (String ((Ascii (true, false, true,
        false, false, true, true, false)), (String ((Ascii (true, false,
        false, true, true, true, true, false)), (String ((Ascii (true, true,
        true, false, true, true, true, false)), (String ((Ascii (true, true,
        true, true, false, true, true, false)), (String ((Ascii (false, true,
        false, false, true, true, true, false)), (String ((Ascii (false,
        false, true, false, false, true, true, false)), (String ((Ascii
        (false, false, false, false, false, true, false, false)), (String
        ((Ascii (false, false, false, false, true, false, true, false)),
        (String ((Ascii (true, false, false, false, false, true, true,
        false)), (String ((Ascii (false, false, true, false, true, true,
        true, false)), (String ((Ascii (false, false, false, true, false,
        true, true, false)), EmptyString)))))))))))))))))))))))))))))),
        (String ((Ascii (false, false, false, true, false, true, true,
        false)), EmptyString)))) :: [])))) :: []))) :: (((String ((Ascii
    (true, true, false, false, true, true, true, false)), (String ((Ascii
    (false, false, true, false, true, true, true, false)), (String ((Ascii
    (true, false, false, false, false, true, true, false)), (String ((Ascii
    (false, false, true, false, true, true, true, false)), (String ((Ascii
    (true, false, true, false, false, true, true, false)), (String ((Ascii
    (false, false, false, false, true, false, true, false)), (String ((Ascii
    (true, false, false, false, false, true, true, false)), (String ((Ascii
    (false, false, true, false, true, true, true, false)), (String ((Ascii
    (false, false, false, true, false, true, true, false)), (String ((Ascii
    (false, true, false, false, false, false, true, false)), (String ((Ascii
    (true, true, true, true, false, true, true, false)), (String ((Ascii
    (false, false, true, false, false, true, true, false)), (String ((Ascii
    (true, false, false, true, true, true, true, false)),
    EmptyString)))))))))))))))))))))))))),
    (block ((SIf ((CByte (Npos (XO (XO (XO (XI (XO XH))))))),
      (block ((SFound (ContextOpen, Z0)) :: (SRetNil :: []))),
      (block ((SIf ((COr (CWhitespace, CNewLine)), (block (SRetNil :: [])),
        (block ((SIf ((CByte (Npos (XI (XI (XO (XO (XO XH))))))),
          (block (SPushCur :: ((SSetStep
            st_stateCommentStarted) :: (SRetNil :: [])))),
          (block ((SIf ((COr ((CByte (Npos (XI (XI (XO (XI (XI (XI
            XH)))))))), (CByte (Npos (XO (XO (XO (XO (XO (XO XH)))))))))),
            (block ((SRetCall st_stateJSchema) :: [])),
            (block ((SRetErr ((String ((Ascii (true, false, false, true,
              false, true, true, false)), (String ((Ascii (false, true, true,
              true, false, true, true, false)), (String ((Ascii (false,
              false, false, false, false, true, false, false)), (String
              ((Ascii (false, false, true, false, true, true, true, false)),
              (String ((Ascii (false, false, false, true, false, true, true,
              false)), (String ((Ascii (true, false, true, false, false,
              true, true, false)), (String ((Ascii (false, false, false,
              false, false, true, false, false)), (String ((Ascii (false,
              false, false, false, true, false, true, false)), (String
              ((Ascii (true, false, false, false, false, true, true, false)),
              (String ((Ascii (false, false, true, false, true, true, true,
              false)), (String ((Ascii (false, false, false, true, false,
              true, true, false)), (String ((Ascii (false, false, false,
              false, false, true, false, false)), (String ((Ascii (false,
              true, false, false, false, true, true, false)), (String ((Ascii
              (true, true, true, true, false, true, true, false)), (String
              ((Ascii (false, false, true, false, false, true, true, false)),
              (String ((Ascii (true, false, false, true, true, true, true,
              false)), EmptyString)))))))))))))))))))))))))))))))),
              EmptyString)) :: [])))) :: [])))) :: [])))) :: [])))) :: []))) :: (((String
    ((Ascii (true, true, false, false, true, true, true, false)), (String
    ((Ascii (false, false, true, false, true, true, true, false)), (String
    ((Ascii (true, false, false, false, false, true, true, false)), (String
    ((Ascii (false, false, true, false, true, true, true, false)), (String
    ((Ascii (true, false, true, false, false, true, true, false)), (String
    ((Ascii (false, false, false, false, true, false, true, false)), (String
    ((Ascii (false, true, false, false, true, true, true, false)),
    EmptyString)))))))))))))),
    (block ((SIf ((CByte (Npos (XI (XI (XI (XI (XO (XI XH)))))))),
      (block ((SSetStep st_statePro) :: (SRetNil :: []))),
      (block ((SRetErr ((String ((Ascii (true, false, false, true, false,
        true, true, false)), (String ((Ascii (false, true, true, true, false,
        true, true, false)), (String ((Ascii (false, false, false, false,
        false, true, false, false)), (String ((Ascii (true, true, false,
        true, false, true, true, false)), (String ((Ascii (true, false, true,
        false, false, true, true, false)), (String ((Ascii (true, false,
        false, true, true, true, true, false)), (String ((Ascii (true, true,
        true, false, true, true, true, false)), (String ((Ascii (true, true,
        true, true, false, true, true, false)), (String ((Ascii (false, true,
        false, false, true, true, true, false)), (String ((Ascii (false,
        false, true, false, false, true, true, false)), (String ((Ascii
        (false, false, false, false, false, true, false, false)), (String
        ((Ascii (false, false, false, false, true, false, true, false)),
        (String ((Ascii (false, true, false, false, true, true, true,
        false)), (String ((Ascii (true, true, true, true, false, true, true,
        false)), (String ((Ascii (false, false, true, false, true, true,
        true, false)), (String ((Ascii (true, true, true, true, false, true,
        true, false)), (String ((Ascii (true, true, false, false, false,
        true, true, false)), (String ((Ascii (true, true, true, true, false,
        true, true, false)), (String ((Ascii (false, false, true, true,
        false, true, true, false)),
        EmptyString)))))))))))))))))))))))))))))))))))))), (String ((Ascii
        (true, true, true, true, false, true, true, false)),
        EmptyString)))) :: [])))) :: []))) :: (((String ((Ascii (true, true,
    false, false, true, true, true, false)), (String ((Ascii (false, false,
    true, false, true, true, true, false)), (String ((Ascii (true, false,
    false, false, false, true, true, false)), (String ((Ascii (false, false,
    true, false, true, true, true, false)), (String ((Ascii (true, false,
    true, false, false, true, true, false)), (String ((Ascii (false, false,
    false, false, true, false, true, false)), (String ((Ascii (false, true,
    false, false, true, true, true, false)), (String ((Ascii (true, true,
    true, true, false, true, true, false)), EmptyString)))))))))))))))),
    (block ((SIf ((CByte (Npos (XO (XO (XI (XO (XI (XI XH)))))))),
      (block ((SSetStep st_stateProt) :: (SRetNil :: []))),
      (block ((SRetErr ((String ((Ascii (true, false, false, true, false,
        true, true, false)), (String ((Ascii (false, true, true, true, false,
        true, true, false)), (String ((Ascii (false, false, false, false,
        false, true, false, false)), (String ((Ascii (true, true, false,
        true, false, true, true, false)), (String ((Ascii (true, false, true,
        false, false, true, true, false)), (String ((Ascii (true, false,
        false, true, true, true, true, false)), (String ((Ascii (true, true,
        true, false, true, true, true, false)), (String ((Ascii (true, true,
        true, true, false, true, true, false)), (String ((Ascii (false, true,
        false, false, true, true, true, false)), (String ((Ascii (false,
        false, true, false, false, true, true, false)), (String ((Ascii
        (false, false, false, false, false, true, false, false)), (String
        ((Ascii (false, false, false, false, true, false, true, false)),
        (String ((Ascii (false, true, false, false, true, true, true,
        false)), (String ((Ascii (true, true, true, true, false, true, true,
        false)), (String ((Ascii (false, false, true, false, true, true,
        true, false)), (String ((Ascii (true, true, true, true, false, true,
        true, false)), (String ((Ascii (true, true, false, false, false,
        true, true, false)), (String ((Ascii (true, true, true, true, false,
        true, true, false)), (String ((Ascii (false, false, true, true,
        false, true, true, false)),
        EmptyString)))))))))))))))))))))))))))))))))))))), (String ((Ascii
        (false, false, true, false, true, true, true, false)),
        EmptyString)))) :: [])))) :: []))) :: (((String ((Ascii (true, true,
    false, false, true, true, true, false)), (String ((Ascii (false, false,
    true, false, true, true, true, false)), (String ((Ascii (true, false,
    false, false, false, true, true, false)), (String ((Ascii (false, false,
    true, false, true, true, true, false)), (String ((Ascii (true, false,
    true, false, false, true, true, false)), (String ((Ascii (false, false,
    false, false, true, false, true, false)), (String ((Ascii (false, true,
    false, false, true, true, true, false)), (String ((Ascii (true, true,
    true, true, false, true, true, false)), (String ((Ascii (false, false,
    true, false, true, true, true, false)), EmptyString)))))))))))))))))),
    (block ((SIf ((CByte (Npos (XI (XI (XI (XI (XO (XI XH)))))))),
      (block ((SSetStep st_stateProto) :: (SRetNil :: []))),
      (block ((SRetErr ((String ((Ascii (true, false, false, true, false,
        true, true, false)), (String ((Ascii (false, true, true, true, false,
        true, true, false)), (String ((Ascii (false, false, false, false,
        false, true, false, false)), (String ((Ascii (true, true, false,
        true, false, true, true, false)), (String ((Ascii (true, false, true,
        false, false, true, true, false)), (String ((Ascii (true, false,
        false, true, true, true, true, false)), (String ((Ascii (true, true,
        true, false, true, true, true, false)), (String ((Ascii (true, true,
        true, true, false, true, true, false)), (String ((Ascii (false, true,
        false, false, true, true, true, false)), (String ((Ascii (false,
        false, true, false, false, true, true, false)), (String ((Ascii
        (false, false, false, false, false, true, false, false)), (String
        ((Ascii (false, false, false, false, true, false, true, false)),
        (String ((Ascii (false, true, false, false, true, true, true,
        false)), (String ((Ascii (true, true, true, true, false, true, true,
        false)), (String ((Ascii (false, false, true, false, true, true,
        true, false)), (String ((Ascii (true, true, true, true, false, true,
        true, false)), (String ((Ascii (true, true, false, false, false,
        true, true, false)), (String ((Ascii (true, true, true, true, false,
        true, true, false)), (String ((Ascii (false, false, true, true,
        false, true, true, false)),
        EmptyString)))))))))))))))))))))))))))))))))))))), (String ((Ascii
        (true, true, true, true, false, true, true, false)),
        EmptyString)))) :: [])))) :: []))) :: (((String ((Ascii (true, true,
    false, false, true, true, true, false)), (String ((Ascii (false, false,
    true, false, true, true, true, false)), (String ((Ascii (true, false,
    false, false, false, true, true, false)), (String ((Ascii (false, false,
    true, false, true, true, true, false)), (String ((Ascii (true, false,
    true, false, false, true, true, false)), (String ((Ascii (false, false,
    false, false, true, false, true, false)), (String ((Ascii (false, true,
    false, false, true, true, true, false)), (String ((Ascii (true, true,
    true, true, false, true, true, false)), (String ((Ascii (false, false,
    true, false, true, true, true, false)), (String ((Ascii (true, true,
    true, true, false, true, true, false)), EmptyString)))))))))))))))))))),
    (block ((SIf ((CByte (Npos (XI (XI (XO (XO (XO (XI XH)))))))),
      (block ((SSetStep st_stateProtoc) :: (SRetNil :: []))),
      (block ((SRetErr ((String ((Ascii (true, false, false, true, false,
        true, true, false)), (String ((Ascii (false, true, true, true, false,
        true, true, false)), (String ((Ascii (false, false, false, false,
        false, true, false, false)), (String ((Ascii (true, true, false,
        true, false, true, true, false)), (String ((Ascii (true, false, true,
        false, false, true, true, false)), (String ((Ascii (true, false,
        false, true, true, true, true, false)), (String ((Ascii (true, true,
        true, false, true, true, true, false)), (String ((Ascii (true, true,
        true, true, false, true, true, false)), (String ((Ascii (false, true,
        false, false, true, true, true, false)), (String ((Ascii (false,
        false, true, false, false, true, true, false)), (String ((Ascii
        (false, false, false, false, false, true, false, false)), (String
        ((Ascii (false, false, false, false, true, false, true, false)),
        (String ((Ascii (false, true, false, false, true, true, true,
        false)), (String ((Ascii (true, true, true, true, false, true, true,
        false)), (String ((Ascii (false, false, true, false, true, true,
        true, false)), (String ((Ascii (true, true, true, true, false, true,
        true, false)), (String ((Ascii (true, true, false, false, false,
        true, true, false)), (String ((Ascii (true, true, true, true, false,
        true, true, false)), (String ((Ascii (false, false, true, true,
        false, true, true, false)),
        EmptyString)))))))))))))))))))))))))))))))))))))), (String ((Ascii
        (true, true, false, false, false, true, true, false)),
        EmptyString)))) :: [])))) :: []))) :: (((String ((Ascii (true, true,
    false, false, true, true, true, false)), (String ((Ascii (false, false,
    true, false, true, true, true, false)), (String ((Ascii (true, false,
    false, false, false, true, true, false)), (String ((Ascii (false, false,
    true, false, true, true, true, false)), (String ((Ascii (true, false,
    true, false, false, true, true, false)), (String ((Ascii (false, false,
    false, false, true, false, true, false)), (String ((Ascii (false, true,
    false, false, true, true, true, false)), (String ((Ascii (true, true,
    true, true, false, true, true, false)), (String ((Ascii (false, false,
    true, false, true, true, true, false)), (String ((Ascii (true, true,
    true, true, false, true, true, false)), (String ((Ascii (true, true,
    false, false, false, true, true, false)),
    EmptyString)))))))))))))))))))))),
    (block ((SIf ((CByte (Npos (XI (XI (XI (XI (XO (XI XH)))))))),
      (block ((SSetStep st_stateProtoco) :: (SRetNil :: []))),
      (block ((SRetErr ((String ((Ascii (true, false, false, true, false,
        true, true, false)), (String ((Ascii (false, true, true, true, false,
        true, true, false)), (String ((Ascii (false, false, false, false,
        false, true, false, false)), (String ((Ascii (true, true, false,
        true, false, true, true, false)), (String ((Ascii (true, false, true,
        false, false, true, true, false)), (String ((Ascii (true, false,
        false, true, true, true, true, false)), (String ((Ascii (true, true,
        true, false, true, true, true, false)), (String ((Ascii (true, true,
        true, true, false, true, true, false)), (String ((Ascii (false, true,
        false, false, true, true, true, false)), (String ((Ascii (false,
        false, true, false, false, true, true, false)), (String ((Ascii
        (false, false, false, false, false, true, false, false)), (String
        ((Ascii (false, false, false, false, true, false, true, false)),
        (String ((Ascii (false, true, false, false, true, true, true,
        false)), (String ((Ascii (true, true, true, true, false, true, true,
        false)), (String ((Ascii (false, false, true, false, true, true,
        true, false)), (String ((Ascii (true, true, true, true, false, true,
        true, false)), (String ((Ascii (true, true, false, false, false,
        true, true, false)), (String ((Ascii (true, true, true, true, false,
        true, true, false)), (String ((Ascii (false, false, true, true,
        false, true, true, false)),
        EmptyString)))))))))))))))))))))))))))))))))))))), (String ((Ascii
        (true, true, true, true, false, true, true, false)),
        EmptyString)))) :: [])))) :: []))) :: (((String ((Ascii (true, true,
    false, false, true, true, true, false)), (String ((Ascii (false, false,
    true, false, true, true, true, false)), (String ((Ascii (true, false,
    false, false, false, true, true, false)), (String ((Ascii (false, false,
    true, false, true, true, true, false)), (String ((Ascii (true, false,
    true, false, false, true, true, false)), (String ((Ascii (false, false,
    false, false, true, false, true, false)), (String ((Ascii (false, true,
    false, false, true, true, true, false)), (String ((Ascii (true, true,
    true, true, false, true, true, false)), (String ((Ascii (false, false,
    true, false, true, true, true, false)), (String ((Ascii (true, true,
    true, true, false, true, true, false)), (String ((Ascii (true, true,
    false, false, false, true, true, false)), (String ((Ascii (true, true,
    true, true, false, true, true, false)),
    EmptyString)))))))))))))))))))))))),
    (block ((SIf ((CByte (Npos (XO (XO (XI (XI (XO (XI XH)))))))),
      (block ((SFound (KeywordEnd, Z0)) :: ((SPush
        st_stateExpectKeyword) :: ((SSetStep
        st_stateParameterOrAnnotation) :: (SRetNil :: []))))),
      (block ((SRetErr ((String ((Ascii (true, false, false, true, false,
        true, true, false)), (String ((Ascii (false, true, true, true, false,
        true, true, false)), (String ((Ascii (false, false, false, false,
        false, true, false, false)), (String ((Ascii (true, true, false,
        true, false, true, true, false)), (String ((Ascii (true, false, true,
        false, false, true, true, false)), (String ((Ascii (true, false,
        false, true, true, true, true, false)), (String ((Ascii (true, true,
        true, false, true, true, true, false)), (String ((Ascii (true, true,
        true, true, false, true, true, false)), (String ((Ascii (false, true,
        false, false, true, true, true, false)), (String ((Ascii (false,
        false, true, false, false, true, true, false)), (String ((Ascii
        (false, false, false, false, false, true, false, false)), (String
        ((Ascii (false, false, false, false, true, false, true, false)),
        (String ((Ascii (false, true, false, false, true, true, true,
        false)), (String ((Ascii (true, true, true, true, false, true, true,
        false)), (String ((Ascii (false, false, true, false, true, true,
        true, false)), (String ((Ascii (true, true, true, true, false, true,
        true, false)), (String ((Ascii (true, true, false, false, false,
        true, true, false)), (String ((Ascii (true, true, true, true, false,
        true, true, false)), (String ((Ascii (false, false, true, true,
        false, true, true, false)),
        EmptyString)))))))))))))))))))))))))))))))))))))), (String ((Ascii
        (false, false, true, true, false, true, true, false)),
        EmptyString)))) :: [])))) :: []))) :: (((String ((Ascii (true, true,
    false, false, true, true, true, false)), (String ((Ascii (false, false,
    true, false, true, true, true, false)), (String ((Ascii (true, false,
    false, false, false, true, true, false)), (String ((Ascii (false, false,
    true, false, true, true, true, false)), (String ((Ascii (true, false,
    true, false, false, true, true, false)), (String ((Ascii (true, false,
    false, false, true, false, true, false)), EmptyString)))))))))))),
    (block ((SIf ((CByte (Npos (XI (XO (XI (XO (XI (XI XH)))))))),
      (block ((SSetStep st_stateQu) :: (SRetNil :: []))),
      (block ((SRetErr ((String ((Ascii (true, false, false, true, false,
        true, true, false)), (String ((Ascii (false, true, true, true, false,
        true, true, false)), (String ((Ascii (false, false, false, false,
        false, true, false, false)), (String ((Ascii (true, true, false,
        true, false, true, true, false)), (String ((Ascii (true, false, true,
        false, false, true, true, false)), (String ((Ascii (true, false,
        false, true, true, true, true, false)), (String ((Ascii (true, true,
        true, false, true, true, true, false)), (String ((Ascii (true, true,
        true, true, false, true, true, false)), (String ((Ascii (false, true,
        false, false, true, true, true, false)), (String ((Ascii (false,
        false, true, false, false, true, true, false)), (String ((Ascii
        (false, false, false, false, false, true, false, false)), (String
        ((Ascii (true, false, false, false, true, false, true, false)),
        (String ((Ascii (true, false, true, false, true, true, true, false)),
        (String ((Ascii (true, false, true, false, false, true, true,
        false)), (String ((Ascii (false, true, false, false, true, true,
        true, false)), (String ((Ascii (true, false, false, true, true, true,
        true, false)), EmptyString)))))))))))))))))))))))))))))))), (String
        ((Ascii (true, false, true, false, true, true, true, false)),
        EmptyString)))) :: [])))) :: []))) :: (((String ((Ascii (true, true,
    false, false, true, true, true, false)), (String ((Ascii (false, false,
    true, false, true, true, true, false)), (String ((Ascii (true, false,
    false, false, false, true, true, false)), (String ((Ascii (false, false,
    true, false, true, true, true, false)), (String ((Ascii (true, false,
    true, false, false, true, true, false)), (String ((Ascii (true, false,
    false, false, true, false, true, false)), (String ((Ascii (true, false,
    true, false, true, true, true, false)), EmptyString)))))))))))))),
    (block ((SIf ((CByte (Npos (XI (XO (XI (XO (XO (XI XH)))))))),
      (block ((SSetStep st_stateQue) :: (SRetNil :: []))),
      (block ((SRetErr ((String ((Ascii (true, false, false, true, false,
        true, true, false)), (String ((Ascii (false, true, true, true, false,
        true, true, false)), (String ((Ascii (false, false, false, false,
        false, true, false, false)), (String ((Ascii (true, true, false,
        true, false, true, true, false)), (String ((Ascii (true, false, true,
        false, false, true, true, false)), (String ((Ascii (true, false,
        false, true, true, true, true, false)), (String ((Ascii (true, true,
        true, false, true, true, true, false)), (String ((Ascii (true, true,
        true, true, false, true, true, false)), (String ((Ascii (false, true,
        false, false, true, true, true, false)), (String ((Ascii (false,
        false, true, false, false, true, true, false)), (String ((Ascii
        (false, false, false, false, false, true, false, false)), (String
        ((Ascii (true, false, false, false, true, false, true, false)),
        (String ((Ascii (true, false, true, false, true, true, true, false)),
        (String ((Ascii (true, false, true, false, false, true, true,
        false)), (String ((Ascii (false, true, false, false, true, true,
        true, false)), (String ((Ascii (true, false, false, true, true, true,
        true, false)), EmptyString)))))))))))))))))))))))))))))))), (String
        ((Ascii (true, false, true, false, false, true, true, false)),
        EmptyString)))) :: [])))) :: []))) :: (((String ((Ascii (true, true,
    false, false, true, true, true, false)), (String ((Ascii (false, false,
    true, false, true, true, true, false)), (String ((Ascii (true, false,
    false, false, false, true, true, false)), (String ((Ascii (false, false,
    true, false, true, true, true, false)), (String ((Ascii (true, false,
    true, false, false, true, true, false)), (String ((Ascii (true, false,
    false, false, true, false, true, false)), (String ((Ascii (true, false,
    true, false, true, true, true, false)), (String ((Ascii (true, false,
    true, false, false, true, true, false)), EmptyString)))))))))))))))),
    (block ((SIf ((CByte (Npos (XO (XI (XO (XO (XI (XI XH)))))))),
      (block ((SSetStep st_stateQuer) :: (SRetNil :: []))),
      (block ((SRetErr ((String ((Ascii (true, false, false, true, false,
        true, true, false)), (String ((Ascii (false, true, true, true, false,
        true, true, false)), (String ((Ascii (false, false, false, false,
        false, true, false, false)), (String ((Ascii (true, true, false,
        true, false, true, true, false)), (String ((Ascii (true, false, true,
        false, false, true, true, false)), (String ((Ascii (true, false,
        false, true, true, true, true, false)), (String ((Ascii (true, true,
        true, false, true, true, true, false)), (String ((Ascii (true, true,
        true, true, false, true, true, false)), (String ((Ascii (false, true,
        false, false, true, true, true, false)), (String ((Ascii (false,
        false, true, false, false, true, true, false)), (String ((Ascii
        (false, false, false, false, false, true, false, false)), (String
        ((Ascii (true, false, false, false, true, false, true, false)),
        (String ((Ascii (true, false, true, false, true, true, true, false)),
        (String ((Ascii (true, false, true, false, false, true, true,
        false)), (String ((Ascii (false, true, false, false, true, true,
        true, false)), (String ((Ascii (true, false, false, true, true, true,
        true, false)), EmptyString)))))))))))))))))))))))))))))))), (String
        ((Ascii (false, true, false, false, true, true, true, false)),
        EmptyString)))) :: [])))) :: []))) :: (((String ((Ascii (true, true,
    false, false, true, true, true, false)), (String ((Ascii (false, false,
    true, false, true, true, true, false)), (String ((Ascii (true, false,
    false, false, false, true, true, false)), (String ((Ascii (false, false,
    true, false, true, true, true, false)), (String ((Ascii (true, false,
    true, false, false, true, true, false)), (String ((Ascii (true, false,
    false, false, true, false, true, false)), (String ((Ascii (true, false,
    true, false, true, true, true, false)), (String ((Ascii (true, false,
    true, false, false, true, true, false)), (String ((Ascii (false, true,
    false, false, true, true, true, false)), EmptyString)))))))))))))))))),
    (block ((SIf ((CByte (Npos (XI (XO (XO (XI (XI (XI XH)))))))),
      (block ((SFound (KeywordEnd, Z0)) :: ((SPush
        st_stateQueryBodyOrKeyword) :: ((SSetStep
        st_stateParameterOrAnnotation) :: (SRetNil :: []))))),
      (block ((SRetErr ((String ((Ascii (true, false, false, true, false,
        true, true, false)), (String ((Ascii (false, true, true, true, false,
        true, true, false)), (String ((Ascii (false, false, false, false,
        false, true, false, false)), (String ((Ascii (true, true, false,
        true, false, true, true, false)), (String ((Ascii (true, false, true,
        false, false, true, true, false)), (String ((Ascii (true, false,
        false, true, true, true, true, false)), (String ((Ascii (true, true,
        true, false, true, true, true, false)), (String ((Ascii (true, true,
        true, true, false, true, true, false)), (String ((Ascii (false, true,
        false, false, true, true, true, false)), (String ((Ascii (false,
        false, true, false, false, true, true, false)), (String ((Ascii
        (false, false, false, false, false, true, false, false)), (String
        ((Ascii (true, false, false, false, true, false, true, false)),
        (String ((Ascii (true, false, true, false, true, true, true, false)),
        (String ((Ascii (true, false, true, false, false, true, true,
        false)), (String ((Ascii (false, true, false, false, true, true,
        true, false)), (String ((Ascii (true, false, false, true, true, true,
        true, false)), EmptyString)))))))))))))))))))))))))))))))), (String
        ((Ascii (true, false, false, true, true, true, true, false)),
        EmptyString)))) :: [])))) :: []))) :: (((String ((Ascii (true, true,
    false, false, true, true, true, false)), (String ((Ascii (false, false,
    true, false, true, true, true, false)), (String ((Ascii (true, false,
    false, false, false, true, true, false)), (String ((Ascii (false, false,
    true, false, true, true, true, false)), (String ((Ascii (true, false,
    true, false, false, true, true, false)), (String ((Ascii (true, false,
    false, false, true, false, true, false)), (String ((Ascii (true, false,
    true, false, true, true, true, false)), (String ((Ascii (true, false,
    true, false, false, true, true, false)), (String ((Ascii (false, true,
    false, false, true, true, true, false)), (String ((Ascii (true, false,
    false, true, true, true, true, false)), (String ((Ascii (false, true,
    false, false, false, false, true, false)), (String ((Ascii (true, true,
    true, true, false, true, true, false)), (String ((Ascii (false, false,
    true, false, false, true, true, false)), (String ((Ascii (true, false,
    false, true, true, true, true, false)), (String ((Ascii (true, true,
    true, true, false, false, true, false)), (String ((Ascii (false, true,
    false, false, true, true, true, false)), (String ((Ascii (true, true,
    false, true, false, false, true, false)), (String ((Ascii (true, false,
    true, false, false, true, true, false)), (String ((Ascii (true, false,
    false, true, true, true, true, false)), (String ((Ascii (true, true,
    true, false, true, true, true, false)), (String ((Ascii (true, true,
    true, true, false, true, true, false)), (String ((Ascii (false, true,
    false, false, true, true, true, false)), (String ((Ascii (false, false,
    true, false, false, true, true, false)),
    EmptyString)))))))))))))))))))))))))))))))))))))))))))))),
    (block ((SIf ((CByte (Npos (XO (XO (XO (XI (XO XH))))))),
      (block ((SFound (ContextOpen, Z0)) :: (SRetNil :: []))),
      (block ((SIf ((COr (CWhitespace, CNewLine)), (block (SRetNil :: [])),
        (block ((SIf ((CByte (Npos (XI (XI (XO (XO (XO XH))))))),
          (block (SPushCur :: ((SSetStep
            st_stateCommentStarted) :: (SRetNil :: [])))),
          (block ((SRetCall st_stateJSchema) :: [])))) :: [])))) :: [])))) :: []))) :: (((String
    ((Ascii (true, true, false, false, true, true, true, false)), (String
    ((Ascii (false, false, true, false, true, true, true, false)), (String
    ((Ascii (true, false, false, false, false, true, true, false)), (String
    ((Ascii (false, false, true, false, true, true, true, false)), (String
    ((Ascii (true, false, true, false, false, true, true, false)), (String
    ((Ascii (false, true, false, false, true, false, true, false)),
    EmptyString)))))))))))),
    (block ((SIf ((CByte (Npos (XI (XO (XI (XO (XO (XI XH)))))))),
      (block ((SSetStep st_stateRe) :: (SRetNil :: []))),
      (block ((SRetErr ((String ((Ascii (true, false, false, true, false,
        true, true, false)), (String ((Ascii (false, true, true, true, false,
        true, true, false)), (String ((Ascii (false, false, false, false,
        false, true, false, false)), (String ((Ascii (false, false, true,
        false, false, true, true, false)), (String ((Ascii (true, false,
        false, true, false, true, true, false)), (String ((Ascii (false,
        true, false, false, true, true, true, false)), (String ((Ascii (true,
        false, true, false, false, true, true, false)), (String ((Ascii
        (true, true, false, false, false, true, true, false)), (String
        ((Ascii (false, false, true, false, true, true, true, false)),
        (String ((Ascii (true, false, false, true, false, true, true,
        false)), (String ((Ascii (false, true, true, false, true, true, true,
        false)), (String ((Ascii (true, false, true, false, false, true,
        true, false)), (String ((Ascii (false, false, false, false, false,
        true, false, false)), (String ((Ascii (false, true, true, true,
        false, true, true, false)), (String ((Ascii (true, false, false,
        false, false, true, true, false)), (String ((Ascii (true, false,
        true, true, false, true, true, false)), (String ((Ascii (true, false,
        true, false, false, true, true, false)),
        EmptyString)))))))))))))))))))))))))))))))))), EmptyString)) :: [])))) :: []))) :: (((String
    ((Ascii (true, true, false, false, true, true, true, false)), (String
    ((Ascii (false, false, true, false, true, true, true, false)), (String
    ((Ascii (true, false, false, false, false, true, true, false)), (String
    ((Ascii (false, false, true, false, true, true, true, false)), (String
    ((Ascii (true, false, true, false, false, true, true, false)), (String
    ((Ascii (false, true, false, false, true, false, true, false)), (String
    ((Ascii (true, false, true, false, false, true, true, false)),
    EmptyString)))))))))))))),
    (block ((SIf ((CByte (Npos (XI (XO (XO (XO (XI (XI XH)))))))),
      (block ((SSetStep st_stateReq) :: (SRetNil :: []))),
      (block ((SIf ((CByte (Npos (XI (XI (XO (XO (XI (XI XH)))))))),
        (block ((SSetStep st_stateRes) :: (SRetNil :: []))),
        (block ((SRetErr ((String ((Ascii (true, false, false, true, false,
          true, true, false)), (String ((Ascii (false, true, true, true,
          false, true, true, false)), (String ((Ascii (false, false, false,
          false, false, true, false, false)), (String ((Ascii (false, false,
          true, false, false, true, true, false)), (String ((Ascii (true,
          false, false, true, false, true, true, false)), (String ((Ascii
          (false, true, false, false, true, true, true, false)), (String
          ((Ascii (true, false, true, false, false, true, true, false)),
          (String ((Ascii (true, true, false, false, false, true, true,
          false)), (String ((Ascii (false, false, true, false, true, true,
          true, false)), (String ((Ascii (true, false, false, true, false,
          true, true, false)), (String ((Ascii (false, true, true, false,
          true, true, true, false)), (String ((Ascii (true, false, true,
          false, false, true, true, false)), (String ((Ascii (false, false,
          false, false, false, true, false, false)), (String ((Ascii (false,
          true, true, true, false, true, true, false)), (String ((Ascii
          (true, false, false, false, false, true, true, false)), (String
          ((Ascii (true, false, true, true, false, true, true, false)),
          (String ((Ascii (true, false, true, false, false, true, true,
          false)), EmptyString)))))))))))))))))))))))))))))))))),
          EmptyString)) :: [])))) :: [])))) :: []))) :: (((String ((Ascii
    (true, true, false, false, true, true, true, false)), (String ((Ascii
    (false, false, true, false, true, true, true, false)), (String ((Ascii
    (true, false, false, false, false, true, true, false)), (String ((Ascii
    (false, false, true, false, true, true, true, false)), (String ((Ascii
    (true, false, true, false, false, true, true, false)), (String ((Ascii
    (false, true, false, false, true, false, true, false)), (String ((Ascii
    (true, false, true, false, false, true, true, false)), (String ((Ascii
    (true, true, true, false, false, true, true, false)), (String ((Ascii
    (true, false, true, false, false, true, true, false)), (String ((Ascii
    (false, false, false, true, true, true, true, false)),
    EmptyString)))))))))))))))))))),
    (block ((SIf ((CNot (CByte (Npos (XI (XI (XI (XI (XO XH)))))))),
      (block ((SRetErr ((String ((Ascii (true, false, false, true, false,
        true, true, false)), (String ((Ascii (false, true, true, true, false,
        true, true, false)), (String ((Ascii (false, false, false, false,
        false, true, false, false)), (String ((Ascii (false, false, true,
        false, true, true, true, false)), (String ((Ascii (false, false,
        false, true, false, true, true, false)), (String ((Ascii (true,
        false, true, false, false, true, true, false)), (String ((Ascii
        (false, false, false, false, false, true, false, false)), (String
        ((Ascii (false, true, false, false, true, true, true, false)),
        (String ((Ascii (true, false, true, false, false, true, true,
        false)), (String ((Ascii (true, true, true, false, false, true, true,
        false)), (String ((Ascii (true, false, true, false, true, true, true,
        false)), (String ((Ascii (false, false, true, true, false, true,
        true, false)), (String ((Ascii (true, false, false, false, false,
        true, true, false)), (String ((Ascii (false, true, false, false,
        true, true, true, false)), (String ((Ascii (false, false, false,
        false, false, true, false, false)), (String ((Ascii (true, false,
        true, false, false, true, true, false)), (String ((Ascii (false,
        false, false, true, true, true, true, false)), (String ((Ascii
        (false, false, false, false, true, true, true, false)), (String
        ((Ascii (false, true, false, false, true, true, true, false)),
        (String ((Ascii (true, false, true, false, false, true, true,
        false)), (String ((Ascii (true, true, false, false, true, true, true,
        false)), (String ((Ascii (true, true, false, false, true, true, true,
        false)), (String ((Ascii (true, false, false, true, false, true,
        true, false)), (String ((Ascii (true, true, true, true, false, true,
        true, false)), (String ((Ascii (false, true, true, true, false, true,
        true, false)),
        EmptyString)))))))))))))))))))))))))))))))))))))))))))))))))),
        (String ((Ascii (true, true, true, false, false, true, false,
        false)), (String ((Ascii (true, true, true, true, false, true, false,
        false)), (String ((Ascii (true, true, true, false, false, true,
        false, false)), (String ((Ascii (false, false, false, false, false,
        true, false, false)), (String ((Ascii (true, true, false, false,
        false, true, true, false)), (String ((Ascii (false, false, false,
        true, false, true, true, false)), (String ((Ascii (true, false,
        false, false, false, true, true, false)), (String ((Ascii (false,
        true, false, false, true, true, true, false)), (String ((Ascii (true,
        false, false, false, false, true, true, false)), (String ((Ascii
        (true, true, false, false, false, true, true, false)), (String
        ((Ascii (false, false, true, false, true, true, true, false)),
        (String ((Ascii (true, false, true, false, false, true, true,
        false)), (String ((Ascii (false, true, false, false, true, true,
        true, false)), EmptyString)))))))))))))))))))))))))))) :: [])),
      SSkip)) :: ((SFound (TextBegin, Z0)) :: ((SSetStep
      st_stateRegexFirstChar) :: (SRetNil :: [])))))) :: (((String ((Ascii
    (true, true, false, false, true, true, true, false)), (String ((Ascii
    (false, false, true, false, true, true, true, false)), (String ((Ascii
    (true, false, false, false, false, true, true, false)), (String ((Ascii
    (false, false, true, false, true, true, true, false)), (String ((Ascii
    (true, false, true, false, false, true, true, false)), (String ((Ascii
    (false, true, false, false, true, false, true, false)), (String ((Ascii
    (true, false, true, false, false, true, true, false)), (String ((Ascii
    (true, true, true, false, false, true, true, false)), (String ((Ascii
    (true, false, true, false, false, true, true, false)), (String ((Ascii
    (false, false, false, true, true, true, true, false)), (String ((Ascii
    (false, true, false, false, false, false, true, false)), (String ((Ascii
    (true, true, true, true, false, true, true, false)), (String ((Ascii
    (false, false, true, false, false, true, true, false)), (String ((Ascii
    (true, false, false, true, true, true, true, false)),
    EmptyString)))))))))))))))))))))))))))),
    (block ((SIf ((CByte (Npos (XI (XI (XI (XI (XO XH))))))),
      (block ((SFound (TextEnd, Z0)) :: ((SSetStep
        st_stateBodyEnded) :: []))),
      (block ((SIf ((CByte N0),
        (block ((SRetErr ((String ((Ascii (true, false, false, true, false,
          true, true, false)), (String ((Ascii (false, true, true, true,
          false, true, true, false)), (String ((Ascii (true, true, false,
          false, true, true, true, false)), (String ((Ascii (true, false,
          false, true, false, true, true, false)), (String ((Ascii (false,
          false, true, false, false, true, true, false)), (String ((Ascii
          (true, false, true, false, false, true, true, false)), (String
          ((Ascii (false, false, false, false, false, true, false, false)),
          (String ((Ascii (false, false, true, false, true, true, true,
          false)), (String ((Ascii (false, false, false, true, false, true,
          true, false)), (String ((Ascii (true, false, true, false, false,
          true, true, false)), (String ((Ascii (false, false, false, false,
          false, true, false, false)), (String ((Ascii (false, true, false,
          false, true, true, true, false)), (String ((Ascii (true, false,
          true, false, false, true, true, false)), (String ((Ascii (true,
          true, true, false, false, true, true, false)), (String ((Ascii
          (true, false, true, false, true, true, true, false)), (String
          ((Ascii (false, false, true, true, false, true, true, false)),
          (String ((Ascii (true, false, false, false, false, true, true,
          false)), (String ((Ascii (false, true, false, false, true, true,
          true, false)), (String ((Ascii (false, false, false, false, false,
          true, false, false)), (String ((Ascii (true, false, true, false,
          false, true, true, false)), (String ((Ascii (false, false, false,
          true, true, true, true, false)), (String ((Ascii (false, false,
          false, false, true, true, true, false)), (String ((Ascii (false,
          true, false, false, true, true, true, false)), (String ((Ascii
          (true, false, true, false, false, true, true, false)), (String
          ((Ascii (true, true, false, false, true, true, true, false)),
          (String ((Ascii (true, true, false, false, true, true, true,
          false)), (String ((Ascii (true, false, false, true, false, true,
          true, false)), (String ((Ascii (true, true, true, true, false,
          true, true, false)), (String ((Ascii (false, true, true, true,
          false, true, true, false)),
          EmptyString)))))))))))))))))))))))))))))))))))))))))))))))))))))))))),
          EmptyString)) :: [])),
        (block ((SIf ((CByte (Npos (XO (XO (XI (XI (XI (XO XH)))))))),
          (block ((SSetStep st_stateRegexBodyAfterSlash) :: [])),
          SSkip)) :: [])))) :: [])))) :: (SRetNil :: [])))) :: (((String
    ((Ascii (true, true, false, false, true, true, true, false)), (String
    ((Ascii (false, false, true, false, true, true, true, false)), (String
    ((Ascii (true, false, false, false, false, true, true, false)), (String
    ((Ascii (false, false, true, false, true, true, true, false)), (String
    ((Ascii (true, false, true, false, false, true, true, false)), (String
    ((Ascii (false, true, false, false, true, false, true, false)), (String
    ((Ascii (true, false, true, false, false, true, true, false)), (String
    ((Ascii (true, true, true, false, false, true, true, false)), (String
    ((Ascii (true, false, true, false, false, true, true, false)), (String
    ((Ascii (false, false, false, true, true, true, true, false)), (String
    ((Ascii (false, true, false, false, false, false, true, false)), (String
    ((Ascii (true, true, true, true, false, true, true, false)), (String
    ((Ascii (false, false, true, false, false, true, true, false)), (String
    ((Ascii (true, false, false, true, true, true, true, false)), (String
    ((Ascii (true, false, false, false, false, false, true, false)), (String
    ((Ascii (false, true, true, false, false, true, true, false)), (String
    ((Ascii (false, false, true, false, true, true, true, false)), (String
    ((Ascii (true, false, true, false, false, true, true, false)), (String
    ((Ascii (false, true, false, false, true, true, true, false)), (String
    ((Ascii (true, true, false, false, true, false, true, false)), (String
    ((Ascii (false, false, true, true, false, true, true, false)), (String
    ((Ascii (true, false, false, false, false, true, true, false)), (String
    ((Ascii (true, true, false, false, true, true, true, false)), (String
    ((Ascii (false, false, false, true, false, true, true, false)),
    EmptyString)))))))))))))))))))))))))))))))))))))))))))))))),
    (block ((SSetStep st_stateRegexBody) :: (SRetNil :: [])))) :: (((String
    ((Ascii (true, true, false, false, true, true, true, false)), (String
    ((Ascii (false, false, true, false, true, true, true, false)), (String
    ((Ascii (true, false, false, false, false, true, true, false)), (String
    ((Ascii (false, false, true, false, true, true, true, false)), (String
    ((Ascii (true, false, true, false, false, true, true, false)), (String
    ((Ascii (false, true, false, false, true, false, true, false)), (String
    ((Ascii (true, false, true, false, false, true, true, false)), (String
    ((Ascii (true, true, true, false, false, true, true, false)), (String
    ((Ascii (true, false, true, false, false, true, true, false)), (String
    ((Ascii (false, false, false, true, true, true, true, false)), (String
    ((Ascii (false, true, true, false, false, false, true, false)), (String
    ((Ascii (true, false, false, true, false, true, true, false)), (String
    ((Ascii (false, true, false, false, true, true, true, false)), (String
    ((Ascii (true, true, false, false, true, true, true, false)), (String
    ((Ascii (false, false, true, false, true, true, true, false)), (String
    ((Ascii (true, true, false, false, false, false, true, false)), (String
    ((Ascii (false, false, false, true, false, true, true, false)), (String
    ((Ascii (true, false, false, false, false, true, true, false)), (String
    ((Ascii (false, true, false, false, true, true, true, false)),
    EmptyString)))))))))))))))))))))))))))))))))))))),
    (block ((SIf ((CByte (Npos (XI (XI (XI (XI (XO XH))))))),
      (block ((SRetErr ((String ((Ascii (true, false, true, false, false,
        true, true, false)), (String ((Ascii (true, false, true, true, false,
        true, true, false)), (String ((Ascii (false, false, false, false,
        true, true, true, false)), (String ((Ascii (false, false, true,
        false, true, true, true, false)), (String ((Ascii (true, false,
        false, true, true, true, true, false)), (String ((Ascii (false,
        false, false, false, false, true, false, false)), (String ((Ascii
        (false, true, false, false, true, true, true, false)), (String
        ((Ascii (true, false, true, false, false, true, true, false)),
        (String ((Ascii (true, true, true, false, false, true, true, false)),
        (String ((Ascii (true, false, true, false, false, true, true,
        false)), (String ((Ascii (false, false, false, true, true, true,
        true, false)), EmptyString)))))))))))))))))))))),
        EmptyString)) :: [])), SSkip)) :: ((SSetStep
      st_stateRegexBody) :: (SRetRedispatch :: []))))) :: (((String ((Ascii
    (true, true, false, false, true, true, true, false)), (String ((Ascii
    (false, false, true, false, true, true, true, false)), (String ((Ascii
    (true, false, false, false, false, true, true, false)), (String ((Ascii
    (false, false, true, false, true, true, true, false)), (String ((Ascii
    (true, false, true, false, false, true, true, false)), (String ((Ascii
    (false, true, false, false, true, false, true, false)), (String ((Ascii
    (true, false, true, false, false, true, true, false)), (String ((Ascii
    (true, false, false, false, true, true, true, false)),
    EmptyString)))))))))))))))),
    (block ((SIf ((CByte (Npos (XI (XO (XI (XO (XI (XI XH)))))))),
      (block ((SSetStep st_stateRequ) :: (SRetNil :: []))),
      (block ((SRetErr ((String ((Ascii (true, false, false, true, false,
        true, true, false)), (String ((Ascii (false, true, true, true, false,
        true, true, false)), (String ((Ascii (false, false, false, false,
        false, true, false, false)), (String ((Ascii (true, true, false,
        true, false, true, true, false)), (String ((Ascii (true, false, true,
        false, false, true, true, false)), (String ((Ascii (true, false,
        false, true, true, true, true, false)), (String ((Ascii (true, true,
        true, false, true, true, true, false)), (String ((Ascii (true, true,
        true, true, false, true, true, false)), (String ((Ascii (false, true,
        false, false, true, true, true, false)), (String ((Ascii (false,
        false, true, false, false, true, true, false)), (String ((Ascii
        (false, false, false, false, false, true, false, false)), (String
        ((Ascii (false, true, false, false, true, false, true, false)),
        (String ((Ascii (true, false, true, false, false, true, true,
        false)), (String ((Ascii (true, false, false, false, true, true,
        true, false)), (String ((Ascii (true, false, true, false, true, true,
        true, false)), (String ((Ascii (true, false, true, false, false,
        true, true, false)), (String ((Ascii (true, true, false, false, true,
        true, true, false)), (String ((Ascii (false, false, true, false,
        true, true, true, false)),
        EmptyString)))))))))))))))))))))))))))))))))))), (String ((Ascii
        (true, false, true, false, true, true, true, false)),
        EmptyString)))) :: [])))) :: []))) :: (((String ((Ascii (true, true,
    false, false, true, true, true, false)), (String ((Ascii (false, false,
    true, false, true, true, true, false)), (String ((Ascii (true, false,
    false, false, false, true, true, false)), (String ((Ascii (false, false,
    true, false, true, true, true, false)), (String ((Ascii (true, false,
    true, false, false, true, true, false)), (String ((Ascii (false, true,
    false, false, true, false, true, false)), (String ((Ascii (true, false,
    true, false, false, true, true, false)), (String ((Ascii (true, false,
    false, false, true, true, true, false)), (String ((Ascii (true, false,
    true, false, true, true, true, false)), EmptyString)))))))))))))))))),
    (block ((SIf ((CByte (Npos (XI (XO (XI (XO (XO (XI XH)))))))),
      (block ((SSetStep st_stateReque) :: (SRetNil :: []))),
      (block ((SRetErr ((String ((Ascii (true, false, false, true, false,
        true, true, false)), (String ((Ascii (false, true, true, true, false,
        true, true, false)), (String ((Ascii (false, false, false, false,
        false, true, false, false)), (String ((Ascii (true, true, false,
        true, false, true, true, false)), (String ((Ascii (true, false, true,
        false, false, true, true, false)), (String ((Ascii (true, false,
        false, true, true, true, true, false)), (String ((Ascii (true, true,
        true, false, true, true, true, false)), (String ((Ascii (true, true,
        true, true, false, true, true, false)), (String ((Ascii (false, true,
        false, false, true, true, true, false)), (String ((Ascii (false,
        false, true, false, false, true, true, false)), (String ((Ascii
        (false, false, false, false, false, true, false, false)), (String
        ((Ascii (false, true, false, false, true, false, true, false)),
        (String ((Ascii (true, false, true, false, false, true, true,
        false)), (String ((Ascii (true, false, false, false, true, true,
        true, false)), (String ((Ascii (true, false, true, false, true, true,
        true, false)), (String ((Ascii (true, false, true, false, false,
        true, true, false)), (String ((Ascii (true, true, false, false, true,
        true, true, false)), (String ((Ascii (false, false, true, false,
        true, true, true, false)),
        EmptyString)))))))))))))))))))))))))))))))))))), (String ((Ascii
        (true, false, true, false, false, true, true, false)),
        EmptyString)))) :: [])))) :: []))) :: (((String ((Ascii (true, true,
    false, false, true, true, true, false)), (String ((Ascii (false, false,
    true, false, true, true, true, false)), (String ((Ascii (true, false,
    false, false, false, true, true, false)), (String ((Ascii (false, false,
    true, false, true, true, true, false)), (String ((Ascii (true, false,
    true, false, false, true, true, false)), (String ((Ascii (false, true,
    false, false, true, false, true, false)), (String ((Ascii (true, false,
    true, false, false, true, true, false)), (String ((Ascii (true, false,
    false, false, true, true, true, false)), (String ((Ascii (true, false,
    true, false, true, true, true, false)), (String ((Ascii (true, false,
    true, false, false, true, true, false)), EmptyString)))))))))))))))))))),
    (block ((SIf ((CByte (Npos (XI (XI (XO (XO (XI (XI XH)))))))),
      (block ((SSetStep st_stateReques) :: (SRetNil :: []))),
      (block ((SRetErr ((String ((Ascii (true, false, false, true, false,
        true, true, false)), (String ((Ascii (false, true, true, true, false,
        true, true, false)), (String ((Ascii (false, false, false, false,
        false, true, false, false)), (String ((Ascii (true, true, false,
        true, false, true, true, false)), (String ((Ascii (true, false, true,
        false, false, true, true, false)), (String ((Ascii (true, false,
        false, true, true, true, true, false)), (String ((Ascii (true, true,
        true, false, true, true, true, false)), (String ((Ascii (true, true,
        true, true, false, true, true, false)), (String ((Ascii (false, true,
        false, false, true, true, true, false)), (String ((Ascii (false,
        false, true, false, false, true, true, false)), (String ((Ascii
        (false, false, false, false, false, true, false, false)), (String
        ((Ascii (false, true, false, false, true, false, true, false)),
        (String ((Ascii (true, false, true, false, false, true, true,
        false)), (String ((Ascii (true, false, false, false, true, true,
        true, false)), (String ((Ascii (true, false, true, false, true, true,
        true, false)), (String ((Ascii (true, false, true, false, false,
        true, true, false)), (String ((Ascii (true, true, false, false, true,
        true, true, false)), (String ((Ascii (false, false, true, false,
        true, true, true, false)),
        EmptyString)))))))))))))))))))))))))))))))))))), (String ((Ascii
        (true, true, false, false, true, true, true, false)),
        EmptyString)))) :: [])))) :: []))) :: (((String ((Ascii (true, true,
    false, false, true, true, true, false)), (String ((Ascii (false, false,
    true, false, true, true, true, false)), (String ((Ascii (true, false,
    false, false, false, true, true, false)), (String ((Ascii (false, false,
    true, false, true, true, true, false)), (String ((Ascii (true, false,
    true, false, false, true, true, false)), (String ((Ascii (false, true,
    false, false, true, false, true, false)), (String ((Ascii (true, false,
    true, false, false, true, true, false)), (String ((Ascii (true, false,
    false, false, true, true, true, false)), (String ((Ascii (true, false,
    true, false, true, true, true, false)), (String ((Ascii (true, false,
    true, false, false, true, true, false)), (String ((Ascii (true, true,
    false, false, true, true, true, false)),
    EmptyString)))))))))))))))))))))),
    (block ((SIf ((CByte (Npos (XO (XO (XI (XO (XI (XI XH)))))))),
      (block ((SFound (KeywordEnd, Z0)) :: ((SPush
        st_stateRequestBodyOrKeyword) :: ((SSetStep
        st_stateParameterOrAnnotation) :: (SRetNil :: []))))),
      (block ((SRetErr ((String ((Ascii (true, false, false, true, false,
        true, true, false)), (String ((Ascii (false, true, true, true, false,
        true, true, false)), (String ((Ascii (false, false, false, false,
        false, true, false, false)), (String ((Ascii (true, true, false,
        true, false, true, true, false)), (String ((Ascii (true, false, true,
        false, false, true, true, false)), (String ((Ascii (true, false,
        false, true, true, true, true, false)), (String ((Ascii (true, true,
        true, false, true, true, true, false)), (String ((Ascii (true, true,
        true, true, false, true, true, false)), (String ((Ascii (false, true,
        false, false, true, true, true, false)), (String ((Ascii (false,
        false, true, false, false, true, true, false)), (String ((Ascii
        (false, false, false, false, false, true, false, false)), (String
        ((Ascii (false, true, false, false, true, false, true, false)),
        (String ((Ascii (true, false, true, false, false, true, true,
        false)), (String ((Ascii (true, false, false, false, true, true,
        true, false)), (String ((Ascii (true, false, true, false, true, true,
        true, false)), (String ((Ascii (true, false, true, false, false,
        true, true, false)), (String ((Ascii (true, true, false, false, true,
        true, true, false)), (String ((Ascii (false, false, true, false,
        true, true, true, false)),
        EmptyString)))))))))))))))))))))))))))))))))))), (String ((Ascii
        (false, false, true, false, true, true, true, false)),
        EmptyString)))) :: [])))) :: []))) :: (((String ((Ascii (true, true,
    false, false, true, true, true, false)), (String ((Ascii (false, false,
    true, false, true, true, true, false)), (String ((Ascii (true, false,
    false, false, false, true, true, false)), (String ((Ascii (false, false,
    true, false, true, true, true, false)), (String ((Ascii (true, false,
    true, false, false, true, true, false)), (String ((Ascii (false, true,
    false, false, true, false, true, false)), (String ((Ascii (true, false,
    true, false, false, true, true, false)), (String ((Ascii (true, false,
    false, false, true, true, true, false)), (String ((Ascii (true, false,
    true, false, true, true, true, false)), (String ((Ascii (true, false,
    true, false, false, true, true, false)), (String ((Ascii (true, true,
    false, false, true, true, true, false)), (String ((Ascii (false, false,
    true, false, true, true, true, false)), (String ((Ascii (false, true,
    false, false, false, false, true, false)), (String ((Ascii (true, true,
    true, true, false, true, true, false)), (String ((Ascii (false, false,
    true, false, false, true, true, false)), (String ((Ascii (true, false,
    false, true, true, true, true, false)),
    EmptyString)))))))))))))))))))))))))))))))),
    (block ((SIf ((CByte (Npos (XO (XO (XO (XI (XO XH))))))),
      (block ((SFound (ContextOpen, Z0)) :: (SRetNil :: []))),
      (block ((SIf ((COr (CWhitespace, CNewLine)), (block (SRetNil :: [])),
        (block ((SIf ((CByte (Npos (XI (XI (XO (XO (XO XH))))))),
          (block (SPushCur :: ((SSetStep
            st_stateCommentStarted) :: (SRetNil :: [])))),
          (block ((SIf ((COr ((CByte (Npos (XO (XI (XO (XO (XO (XO
            XH)))))))), (COr ((CByte (Npos (XO (XO (XO (XI (XO (XO
            XH)))))))), (COr ((CByte (Npos (XO (XO (XO (XO (XI (XO
            XH)))))))), (CByte (Npos (XI (XO (XO (XI (XO (XO
            XH)))))))))))))),
            (block ((SRetCall st_stateExpectKeyword) :: [])),
            (block (SPop :: (SRetRedispatch :: []))))) :: [])))) :: [])))) :: [])))) :: []))) :: (((String
    ((Ascii (true, true, false, false, true, true, true, false)), (String
    ((Ascii (false, false, true, false, true, true, true, false)), (String
    ((Ascii (true, false, false, false, false, true, true, false)), (String
    ((Ascii (false, false, true, false, true, true, true, false)), (String
    ((Ascii (true, false, true, false, false, true, true, false)), (String
    ((Ascii (false, true, false, false, true, false, true, false)), (String
    ((Ascii (true, false, true, false, false, true, true, false)), (String
    ((Ascii (true, false, false, false, true, true, true, false)), (String
    ((Ascii (true, false, true, false, true, true, true, false)), (String
    ((Ascii (true, false, true, false, false, true, true, false)), (String
    ((Ascii (true, true, false, false, true, true, true, false)), (String
    ((Ascii (false, false, true, false, true, true, true, false)), (String
    ((Ascii (false, true, false, false, false, false, true, false)), (String
    ((Ascii (true, true, true, true, false, true, true, false)), (String
    ((Ascii (false, false, true, false, false, true, true, false)), (String
    ((Ascii (true, false, false, true, true, true, true, false)), (String
    ((Ascii (true, true, true, true, false, false, true, false)), (String
    ((Ascii (false, true, false, false, true, true, true, false)), (String
    ((Ascii (true, true, false, true, false, false, true, false)), (String
    ((Ascii (true, false, true, false, false, true, true, false)), (String
    ((Ascii (true, false, false, true, true, true, true, false)), (String
    ((Ascii (true, true, true, false, true, true, true, false)), (String
    ((Ascii (true, true, true, true, false, true, true, false)), (String
    ((Ascii (false, true, false, false, true, true, true, false)), (String
    ((Ascii (false, false, true, false, false, true, true, false)),
    EmptyString)))))))))))))))))))))))))))))))))))))))))))))))))),
    (block ((SIf ((CNot (CCtx QTypeOrAnyOrEmpty)),
      (block ((SIf ((CCtx QRegex), (block ((SPush st_stateRegex) :: [])),
        (block ((SPush st_stateJSchema) :: [])))) :: ((SSetStep
        st_stateRequestBody) :: []))),
      (block ((SSetStep st_stateExpectKeyword) :: [])))) :: (SRetRedispatch :: [])))) :: (((String
    ((Ascii (true, true, false, false, true, true, true, false)), (String
    ((Ascii (false, false, true, false, true, true, true, false)), (String
    ((Ascii (true, false, false, false, false, true, true, false)), (String
    ((Ascii (false, false, true, false, true, true, true, false)), (String
    ((Ascii (true, false, true, false, false, true, true, false)), (String
    ((Ascii (false, true, false, false, true, false, true, false)), (String
    ((Ascii (true, false, true, false, false, true, true, false)), (String
    ((Ascii (true, true, false, false, true, true, true, false)),
    EmptyString)))))))))))))))),
    (block ((SIf ((CByte (Npos (XI (XO (XI (XO (XI (XI XH)))))))),
      (block ((SSetStep st_stateResu) :: (SRetNil :: []))),
      (block ((SRetErr ((String ((Ascii (true, false, false, true, false,
        true, true, false)), (String ((Ascii (false, true, true, true, false,
        true, true, false)), (String ((Ascii (false, false, false, false,
        false, true, false, false)), (String ((Ascii (true, true, false,
        true, false, true, true, false)), (String ((Ascii (true, false, true,
        false, false, true, true, false)), (String ((Ascii (true, false,
        false, true, true, true, true, false)), (String ((Ascii (true, true,
        true, false, true, true, true, false)), (String ((Ascii (true, true,
        true, true, false, true, true, false)), (String ((Ascii (false, true,
        false, false, true, true, true, false)), (String ((Ascii (false,
        false, true, false, false, true, true, false)), (String ((Ascii
        (false, false, false, false, false, true, false, false)), (String
        ((Ascii (false, true, false, false, true, false, true, false)),
        (String ((Ascii (true, false, true, false, false, true, true,
        false)), (String ((Ascii (true, true, false, false, true, true, true,
        false)), (String ((Ascii (true, false, true, false, true, true, true,
        false)), (String ((Ascii (false, false, true, true, false, true,
        true, false)), (String ((Ascii (false, false, true, false, true,
        true, true, false)), EmptyString)))))))))))))))))))))))))))))))))),
        (String ((Ascii (true, false, true, false, true, true, true, false)),
        EmptyString)))) :: [])))) :: []))) :: (((String ((Ascii (true, true,
    false, false, true, true, true, false)), (String ((Ascii (false, false,
    true, false, true, true, true, false)), (String ((Ascii (true, false,
    false, false, false, true, true, false)), (String ((Ascii (false, false,
    true, false, true, true, true, false)), (String ((Ascii (true, false,
    true, false, false, true, true, false)), (String ((Ascii (false, true,
    false, false, true, false, true, false)), (String ((Ascii (true, false,
    true, false, false, true, true, false)), (String ((Ascii (true, true,
    false, false, true, true, true, false)), (String ((Ascii (false, false,
    false, false, true, true, true, false)), (String ((Ascii (true, true,
    true, true, false, true, true, false)), (String ((Ascii (false, true,
    true, true, false, true, true, false)), (String ((Ascii (true, true,
    false, false, true, true, true, false)), (String ((Ascii (true, false,
    true, false, false, true, true, false)), (String ((Ascii (false, true,
    false, false, false, false, true, false)), (String ((Ascii (true, true,
    true, true, false, true, true, false)), (String ((Ascii (false, false,
    true, false, false, true, true, false)), (String ((Ascii (true, false,
    false, true, true, true, true, false)),
    EmptyString)))))))))))))))))))))))))))))))))),
    (block ((SIf ((CByte (Npos (XO (XO (XO (XI (XO XH))))))),
      (block ((SFound (ContextOpen, Z0)) :: (SRetNil :: []))),
      (block ((SIf ((COr (CWhitespace, CNewLine)), (block (SRetNil :: [])),
        (block ((SIf ((CByte (Npos (XI (XI (XO (XO (XO XH))))))),
          (block (SPushCur :: ((SSetStep
            st_stateCommentStarted) :: (SRetNil :: [])))),
          (block ((SIf ((COr ((CByte (Npos (XO (XI (XO (XO (XO (XO
            XH)))))))), (COr ((CByte (Npos (XO (XO (XO (XI (XO (XO
            XH)))))))), (COr ((CByte (Npos (XO (XO (XO (XO (XI (XO
            XH)))))))), (CByte (Npos (XI (XO (XO (XI (XO (XO
            XH)))))))))))))),
            (block ((SRetCall st_stateExpectKeyword) :: [])),
            (block (SPop :: (SRetRedispatch :: []))))) :: [])))) :: [])))) :: [])))) :: []))) :: (((String
    ((Ascii (true, true, false, false, true, true, true, false)), (String
    ((Ascii (false, false, true, false, true, true, true, false)), (String
    ((Ascii (true, false, false, false, false, true, true, false)), (String
    ((Ascii (false, false, true, false, true, true, true, false)), (String
    ((Ascii (true, false, true, false, false, true, true, false)), (String
    ((Ascii (false, true, false, false, true, false, true, false)), (String
    ((Ascii (true, false, true, false, false, true, true, false)), (String
    ((Ascii (true, true, false, false, true, true, true, false)), (String
    ((Ascii (false, false, false, false, true, true, true, false)), (String
    ((Ascii (true, true, true, true, false, true, true, false)), (String
    ((Ascii (false, true, true, true, false, true, true, false)), (String
    ((Ascii (true, true, false, false, true, true, true, false)), (String
    ((Ascii (true, false, true, false, false, true, true, false)), (String
    ((Ascii (false, true, false, false, false, false, true, false)), (String
    ((Ascii (true, true, true, true, false, true, true, false)), (String
    ((Ascii (false, false, true, false, false, true, true, false)), (String
    ((Ascii (true, false, false, true, true, true, true, false)), (String
    ((Ascii (true, true, true, true, false, false, true, false)), (String
    ((Ascii (false, true, false, false, true, true, true, false)), (String
    ((Ascii (true, true, false, true, false, false, true, false)), (String
    ((Ascii (true, false, true, false, false, true, true, false)), (String
    ((Ascii (true, false, false, true, true, true, true, false)), (String
    ((Ascii (true, true, true, false, true, true, true, false)), (String
    ((Ascii (true, true, true, true, false, true, true, false)), (String
    ((Ascii (false, true, false, false, true, true, true, false)), (String
    ((Ascii (false, false, true, false, false, true, true, false)),
    EmptyString)))))))))))))))))))))))))))))))))))))))))))))))))))),
    (block ((SIf ((CNot (CCtx QTypeOrAnyOrEmpty)),
      (block ((SIf ((CCtx QRegex), (block ((SPush st_stateRegex) :: [])),
        (block ((SPush st_stateJSchema) :: [])))) :: ((SSetStep
        st_stateResponseBody) :: []))),
      (block ((SSetStep st_stateExpectKeyword) :: [])))) :: (SRetRedispatch :: [])))) :: (((String
    ((Ascii (true, true, false, false, true, true, true, false)), (String
    ((Ascii (false, false, true, false, true, true, true, false)), (String
    ((Ascii (true, false, false, false, false, true, true, false)), (String
    ((Ascii (false, false, true, false, true, true, true, false)), (String
    ((Ascii (true, false, true, false, false, true, true, false)), (String
    ((Ascii (false, true, false, false, true, false, true, false)), (String
    ((Ascii (true, false, true, false, false, true, true, false)), (String
    ((Ascii (true, true, false, false, true, true, true, false)), (String
    ((Ascii (false, false, false, false, true, true, true, false)), (String
    ((Ascii (true, true, true, true, false, true, true, false)), (String
    ((Ascii (false, true, true, true, false, true, true, false)), (String
    ((Ascii (true, true, false, false, true, true, true, false)), (String
    ((Ascii (true, false, true, false, false, true, true, false)), (String
    ((Ascii (true, true, false, true, false, false, true, false)), (String
    ((Ascii (true, false, true, false, false, true, true, false)), (String
    ((Ascii (true, false, false, true, true, true, true, false)), (String
    ((Ascii (true, true, true, false, true, true, true, false)), (String
    ((Ascii (true, true, true, true, false, true, true, false)), (String
    ((Ascii (false, true, false, false, true, true, true, false)), (String
    ((Ascii (false, false, true, false, false, true, true, false)), (String
    ((Ascii (true, true, false, false, true, false, true, false)), (String
    ((Ascii (true, false, true, false, false, true, true, false)), (String
    ((Ascii (true, true, false, false, false, true, true, false)), (String
    ((Ascii (true, true, true, true, false, true, true, false)), (String
    ((Ascii (false, true, true, true, false, true, true, false)), (String
    ((Ascii (false, false, true, false, false, true, true, false)),
    EmptyString)))))))))))))))))))))))))))))))))))))))))))))))))))),
    (block ((SIf ((COr ((CByte (Npos (XO (XO (XO (XO (XI XH))))))), (COr
      ((CByte (Npos (XI (XO (XO (XO (XI XH))))))), (COr ((CByte (Npos (XO (XI
      (XO (XO (XI XH))))))), (COr ((CByte (Npos (XI (XI (XO (XO (XI
      XH))))))), (COr ((CByte (Npos (XO (XO (XI (XO (XI XH))))))), (COr
      ((CByte (Npos (XI (XO (XI (XO (XI XH))))))), (COr ((CByte (Npos (XO (XI
      (XI (XO (XI XH))))))), (COr ((CByte (Npos (XI (XI (XI (XO (XI
      XH))))))), (COr ((CByte (Npos (XO (XO (XO (XI (XI XH))))))), (CByte
      (Npos (XI (XO (XO (XI (XI XH))))))))))))))))))))))))),
      (block ((SFound (KeywordEnd, Z0)) :: ((SPush
        st_stateResponseBodyOrKeyword) :: ((SSetStep
        st_stateParameterOrAnnotation) :: (SRetNil :: []))))),
      (block ((SRetErr ((String ((Ascii (true, false, false, false, false,
        true, true, false)), (String ((Ascii (false, false, true, false,
        true, true, true, false)), (String ((Ascii (false, false, false,
        false, false, true, false, false)), (String ((Ascii (false, true,
        false, false, true, true, true, false)), (String ((Ascii (true,
        false, true, false, false, true, true, false)), (String ((Ascii
        (true, true, false, false, true, true, true, false)), (String ((Ascii
        (false, false, false, false, true, true, true, false)), (String
        ((Ascii (true, true, true, true, false, true, true, false)), (String
        ((Ascii (false, true, true, true, false, true, true, false)), (String
        ((Ascii (true, true, false, false, true, true, true, false)), (String
        ((Ascii (true, false, true, false, false, true, true, false)),
        (String ((Ascii (false, false, false, false, false, true, false,
        false)), (String ((Ascii (false, false, true, false, false, true,
        true, false)), (String ((Ascii (true, false, false, true, false,
        true, true, false)), (String ((Ascii (false, true, false, false,
        true, true, true, false)), (String ((Ascii (true, false, true, false,
        false, true, true, false)), (String ((Ascii (true, true, false,
        false, false, true, true, false)), (String ((Ascii (false, false,
        true, false, true, true, true, false)), (String ((Ascii (true, false,
        false, true, false, true, true, false)), (String ((Ascii (false,
        true, true, false, true, true, true, false)), (String ((Ascii (true,
        false, true, false, false, true, true, false)),
        EmptyString)))))))))))))))))))))))))))))))))))))))))), (String
        ((Ascii (false, false, true, false, false, true, true, false)),
        (String ((Ascii (true, false, false, true, false, true, true,
        false)), (String ((Ascii (true, true, true, false, false, true, true,
        false)), (String ((Ascii (true, false, false, true, false, true,
        true, false)), (String ((Ascii (false, false, true, false, true,
        true, true, false)), EmptyString)))))))))))) :: [])))) :: []))) :: (((String
    ((Ascii (true, true, false, false, true, true, true, false)), (String
    ((Ascii (false, false, true, false, true, true, true, false)), (String
    ((Ascii (true, false, false, false, false, true, true, false)), (String
    ((Ascii (false, false, true, false, true, true, true, false)), (String
    ((Ascii (true, false, true, false, false, true, true, false)), (String
    ((Ascii (false, true, false, false, true, false, true, false)), (String
    ((Ascii (true, false, true, false, false, true, true, false)), (String
    ((Ascii (true, true, false, false, true, true, true, false)), (String
    ((Ascii (false, false, false, false, true, true, true, false)), (String
    ((Ascii (true, true, true, true, false, true, true, false)), (String
    ((Ascii (false, true, true, true, false, true, true, false)), (String
    ((Ascii (true, true, false, false, true, true, true, false)), (String
    ((Ascii (true, false, true, false, false, true, true, false)), (String
    ((Ascii (true, true, false, true, false, false, true, false)), (String
    ((Ascii (true, false, true, false, false, true, true, false)), (String
    ((Ascii (true, false, false, true, true, true, true, false)), (String
    ((Ascii (true, true, true, false, true, true, true, false)), (String
    ((Ascii (true, true, true, true, false, true, true, false)), (String
    ((Ascii (false, true, false, false, true, true, true, false)), (String
    ((Ascii (false, false, true, false, false, true, true, false)), (String
    ((Ascii (true, true, false, false, true, false, true, false)), (String
    ((Ascii (false, false, true, false, true, true, true, false)), (String
    ((Ascii (true, false, false, false, false, true, true, false)), (String
    ((Ascii (false, true, false, false, true, true, true, false)), (String
    ((Ascii (false, false, true, false, true, true, true, false)), (String
    ((Ascii (true, false, true, false, false, true, true, false)), (String
    ((Ascii (false, false, true, false, false, true, true, false)),
    EmptyString)))))))))))))))))))))))))))))))))))))))))))))))))))))),
    (block ((SIf ((COr ((CByte (Npos (XO (XO (XO (XO (XI XH))))))), (COr
      ((CByte (Npos (XI (XO (XO (XO (XI XH))))))), (COr ((CByte (Npos (XO (XI
      (XO (XO (XI XH))))))), (COr ((CByte (Npos (XI (XI (XO (XO (XI
      XH))))))), (COr ((CByte (Npos (XO (XO (XI (XO (XI XH))))))), (COr
      ((CByte (Npos (XI (XO (XI (XO (XI XH))))))), (COr ((CByte (Npos (XO (XI
      (XI (XO (XI XH))))))), (COr ((CByte (Npos (XI (XI (XI (XO (XI
      XH))))))), (COr ((CByte (Npos (XO (XO (XO (XI (XI XH))))))), (CByte
      (Npos (XI (XO (XO (XI (XI XH))))))))))))))))))))))))),
      (block ((SSetStep st_stateResponseKeywordSecond) :: (SRetNil :: []))),
      (block ((SRetErr ((String ((Ascii (true, false, false, false, false,
        true, true, false)), (String ((Ascii (false, false, true, false,
        true, true, true, false)), (String ((Ascii (false, false, false,
        false, false, true, false, false)), (String ((Ascii (false, true,
        false, false, true, true, true, false)), (String ((Ascii (true,
        false, true, false, false, true, true, false)), (String ((Ascii
        (true, true, false, false, true, true, true, false)), (String ((Ascii
        (false, false, false, false, true, true, true, false)), (String
        ((Ascii (true, true, true, true, false, true, true, false)), (String
        ((Ascii (false, true, true, true, false, true, true, false)), (String
        ((Ascii (true, true, false, false, true, true, true, false)), (String
        ((Ascii (true, false, true, false, false, true, true, false)),
        (String ((Ascii (false, false, false, false, false, true, false,
        false)), (String ((Ascii (false, false, true, false, false, true,
        true, false)), (String ((Ascii (true, false, false, true, false,
        true, true, false)), (String ((Ascii (false, true, false, false,
        true, true, true, false)), (String ((Ascii (true, false, true, false,
        false, true, true, false)), (String ((Ascii (true, true, false,
        false, false, true, true, false)), (String ((Ascii (false, false,
        true, false, true, true, true, false)), (String ((Ascii (true, false,
        false, true, false, true, true, false)), (String ((Ascii (false,
        true, true, false, true, true, true, false)), (String ((Ascii (true,
        false, true, false, false, true, true, false)),
        EmptyString)))))))))))))))))))))))))))))))))))))))))), (String
        ((Ascii (false, false, true, false, false, true, true, false)),
        (String ((Ascii (true, false, false, true, false, true, true,
        false)), (String ((Ascii (true, true, true, false, false, true, true,
        false)), (String ((Ascii (true, false, false, true, false, true,
        true, false)), (String ((Ascii (false, false, true, false, true,
        true, true, false)), EmptyString)))))))))))) :: [])))) :: []))) :: (((String
    ((Ascii (true, true, false, false, true, true, true, false)), (String
    ((Ascii (false, false, true, false, true, true, true, false)), (String
    ((Ascii (true, false, false, false, false, true, true, false)), (String
    ((Ascii (false, false, true, false, true, true, true, false)), (String
    ((Ascii (true, false, true, false, false, true, true, false)), (String
    ((Ascii (false, true, false, false, true, false, true, false)), (String
    ((Ascii (true, false, true, false, false, true, true, false)), (String
    ((Ascii (true, true, false, false, true, true, true, false)), (String
    ((Ascii (true, false, true, false, true, true, true, false)),
    EmptyString)))))))))))))))))),
    (block ((SIf ((CByte (Npos (XO (XO (XI (XI (XO (XI XH)))))))),
      (block ((SSetStep st_stateResul) :: (SRetNil :: []))),
      (block ((SRetErr ((String ((Ascii (true, false, false, true, false,
        true, true, false)), (String ((Ascii (false, true, true, true, false,
        true, true, false)), (String ((Ascii (false, false, false, false,
        false, true, false, false)), (String ((Ascii (true, true, false,
        true, false, true, true, false)), (String ((Ascii (true, false, true,
        false, false, true, true, false)), (String ((Ascii (true, false,
        false, true, true, true, true, false)), (String ((Ascii (true, true,
        true, false, true, true, true, false)), (String ((Ascii (true, true,
        true, true, false, true, true, false)), (String ((Ascii (false, true,
        false, false, true, true, true, false)), (String ((Ascii (false,
        false, true, false, false, true, true, false)), (String ((Ascii
        (false, false, false, false, false, true, false, false)), (String
        ((Ascii (false, true, false, false, true, false, true, false)),
        (String ((Ascii (true, false, true, false, false, true, true,
        false)), (String ((Ascii (true, true, false, false, true, true, true,
        false)), (String ((Ascii (true, false, true, false, true, true, true,
        false)), (String ((Ascii (false, false, true, true, false, true,
        true, false)), (String ((Ascii (false, false, true, false, true,
        true, true, false)), EmptyString)))))))))))))))))))))))))))))))))),
        (String ((Ascii (false, false, true, true, false, true, true,
        false)), EmptyString)))) :: [])))) :: []))) :: (((String ((Ascii
    (true, true, false, false, true, true, true, false)), (String ((Ascii
    (false, false, true, false, true, true, true, false)), (String ((Ascii
    (true, false, false, false, false, true, true, false)), (String ((Ascii
    (false, false, true, false, true, true, true, false)), (String ((Ascii
    (true, false, true, false, false, true, true, false)), (String ((Ascii
    (false, true, false, false, true, false, true, false)), (String ((Ascii
    (true, false, true, false, false, true, true, false)), (String ((Ascii
    (true, true, false, false, true, true, true, false)), (String ((Ascii
    (true, false, true, false, true, true, true, false)), (String ((Ascii
    (false, false, true, true, false, true, true, false)),
    EmptyString)))))))))))))))))))),
    (block ((SIf ((CByte (Npos (XO (XO (XI (XO (XI (XI XH)))))))),
      (block ((SFound (KeywordEnd, Z0)) :: ((SPush
        st_stateResultBody) :: ((SSetStep
        st_stateParameterOrAnnotation) :: (SRetNil :: []))))),
      (block ((SRetErr ((String ((Ascii (true, false, false, true, false,
        true, true, false)), (String ((Ascii (false, true, true, true, false,
        true, true, false)), (String ((Ascii (false, false, false, false,
        false, true, false, false)), (String ((Ascii (true, true, false,
        true, false, true, true, false)), (String ((Ascii (true, false, true,
        false, false, true, true, false)), (String ((Ascii (true, false,
        false, true, true, true, true, false)), (String ((Ascii (true, true,
        true, false, true, true, true, false)), (String ((Ascii (true, true,
        true, true, false, true, true, false)), (String ((Ascii (false, true,
        false, false, true, true, true, false)), (String ((Ascii (false,
        false, true, false, false, true, true, false)), (String ((Ascii
        (false, false, false, false, false, true, false, false)), (String
        ((Ascii (false, true, false, false, true, false, true, false)),
        (String ((Ascii (true, false, true, false, false, true, true,
        false)), (String ((Ascii (true, true, false, false, true, true, true,
        false)), (String ((Ascii (true, false, true, false, true, true, true,
        false)), (String ((Ascii (false, false, true, true, false, true,
        true, false)), (String ((Ascii (false, false, true, false, true,
        true, true, false)), EmptyString)))))))))))))))))))))))))))))))))),
        (String ((Ascii (false, false, true, false, true, true, true,
        false)), EmptyString)))) :: [])))) :: []))) :: (((String ((Ascii
    (true, true, false, false, true, true, true, false)), (String ((Ascii
    (false, false, true, false, true, true, true, false)), (String ((Ascii
    (true, false, false, false, false, true, true, false)), (String ((Ascii
    (false, false, true, false, true, true, true, false)), (String ((Ascii
    (true, false, true, false, false, true, true, false)), (String ((Ascii
    (false, true, false, false, true, false, true, false)), (String ((Ascii
    (true, false, true, false, false, true, true, false)), (String ((Ascii
    (true, true, false, false, true, true, true, false)), (String ((Ascii
    (true, false, true, false, true, true, true, false)), (String ((Ascii
    (false, false, true, true, false, true, true, false)), (String ((Ascii
    (false, false, true, false, true, true, true, false)), (String ((Ascii
    (false, true, false, false, false, false, true, false)), (String ((Ascii
    (true, true, true, true, false, true, true, false)), (String ((Ascii
    (false, false, true, false, false, true, true, false)), (String ((Ascii
    (true, false, false, true, true, true, true, false)),
    EmptyString)))))))))))))))))))))))))))))),
    (block ((SIf ((CByte (Npos (XO (XO (XO (XI (XO XH))))))),
      (block ((SFound (ContextOpen, Z0)) :: (SRetNil :: []))),
      (block ((SIf ((COr (CWhitespace, CNewLine)), (block (SRetNil :: [])),
        (block ((SIf ((CByte (Npos (XI (XI (XO (XO (XO XH))))))),
          (block (SPushCur :: ((SSetStep
            st_stateCommentStarted) :: (SRetNil :: [])))),
          (block ((SRetCall st_stateJSchema) :: [])))) :: [])))) :: [])))) :: []))) :: (((String
    ((Ascii (true, true, false, false, true, true, true, false)), (String
    ((Ascii (false, false, true, false, true, true, true, false)), (String
    ((Ascii (true, false, false, false, false, true, true, false)), (String
    ((Ascii (false, false, true, false, true, true, true, false)), (String
    ((Ascii (true, false, true, false, false, true, true, false)), (String
    ((Ascii (false, true, false, false, true, false, true, false)), (String
    ((Ascii (true, true, true, true, false, true, true, false)), (String
    ((Ascii (true, true, true, true, false, true, true, false)), (String
    ((Ascii (false, false, true, false, true, true, true, false)),
    EmptyString)))))))))))))))))),
    (block ((SIf ((CByte (Npos (XI (XI (XO (XO (XO XH))))))),
      (block (SPushCur :: ((SSetStep
        st_stateCommentStarted) :: (SRetNil :: [])))), SSkip)) :: ((SRetCall
      st_stateExpectKeyword) :: [])))) :: (((String ((Ascii (true, true,
    false, false, true, true, true, false)), (String ((Ascii (false, false,
    true, false, true, true, true, false)), (String ((Ascii (true, false,
    false, false, false, true, true, false)), (String ((Ascii (false, false,
    true, false, true, true, true, false)), (String ((Ascii (true, false,
    true, false, false, true, true, false)), (String ((Ascii (true, true,
    false, false, true, false, true, false)), EmptyString)))))))))))),
    (block ((SIf ((CByte (Npos (XI (XO (XI (XO (XO (XO XH)))))))),
      (block ((SSetStep st_stateSe) :: (SRetNil :: []))),
      (block ((SRetErr ((String ((Ascii (true, false, false, true, false,
        true, true, false)), (String ((Ascii (false, true, true, true, false,
        true, true, false)), (String ((Ascii (false, false, false, false,
        false, true, false, false)), (String ((Ascii (true, true, false,
        true, false, true, true, false)), (String ((Ascii (true, false, true,
        false, false, true, true, false)), (String ((Ascii (true, false,
        false, true, true, true, true, false)), (String ((Ascii (true, true,
        true, false, true, true, true, false)), (String ((Ascii (true, true,
        true, true, false, true, true, false)), (String ((Ascii (false, true,
        false, false, true, true, true, false)), (String ((Ascii (false,
        false, true, false, false, true, true, false)), (String ((Ascii
        (false, false, false, false, false, true, false, false)), (String
        ((Ascii (true, true, false, false, true, false, true, false)),
        (String ((Ascii (true, false, true, false, false, false, true,
        false)), (String ((Ascii (false, true, false, false, true, false,
        true, false)), (String ((Ascii (false, true, true, false, true,
        false, true, false)), (String ((Ascii (true, false, true, false,
        false, false, true, false)), (String ((Ascii (false, true, false,
        false, true, false, true, false)),
        EmptyString)))))))))))))))))))))))))))))))))), (String ((Ascii (true,
        false, true, false, false, false, true, false)),
        EmptyString)))) :: [])))) :: []))) :: (((String ((Ascii (true, true,
    false, false, true, true, true, false)), (String ((Ascii (false, false,
    true, false, true, true, true, false)), (String ((Ascii (true, false,
    false, false, false, true, true, false)), (String ((Ascii (false, false,
    true, false, true, true, true, false)), (String ((Ascii (true, false,
    true, false, false, true, true, false)), (String ((Ascii (true, true,
    false, false, true, false, true, false)), (String ((Ascii (true, true,
    false, false, false, true, true, false)), (String ((Ascii (false, false,
    false, true, false, true, true, false)), (String ((Ascii (true, false,
    true, false, false, true, true, false)), (String ((Ascii (true, false,
    true, true, false, true, true, false)), (String ((Ascii (true, false,
    false, false, false, true, true, false)), (String ((Ascii (true, true,
    false, false, false, false, true, false)), (String ((Ascii (false, false,
    true, true, false, true, true, false)), (String ((Ascii (true, true,
    true, true, false, true, true, false)), (String ((Ascii (true, true,
    false, false, true, true, true, false)), (String ((Ascii (true, false,
    true, false, false, true, true, false)), (String ((Ascii (false, false,
    true, false, false, true, true, false)),
    EmptyString)))))))))))))))))))))))))))))))))),
    (block ((SIf (CWhitespace,
      (block ((SFound (SchemaEnd, (Zneg XH))) :: ((SSetStep
        st_stateBodyEnded) :: (SRetNil :: [])))),
      (block ((SIf ((COr (CNewLine, (CByte N0))),
        (block ((SFound (SchemaEnd, (Zneg XH))) :: ((SSetStep
          st_stateExpectKeyword) :: (SRetNil :: [])))),
        (block ((SRetErr ((String ((Ascii (true, false, false, false, false,
          true, true, false)), (String ((Ascii (false, true, true, false,
          false, true, true, false)), (String ((Ascii (false, false, true,
          false, true, true, true, false)), (String ((Ascii (true, false,
          true, false, false, true, true, false)), (String ((Ascii (false,
          true, false, false, true, true, true, false)), (String ((Ascii
          (false, false, false, false, false, true, false, false)), (String
          ((Ascii (true, true, false, false, true, true, true, false)),
          (String ((Ascii (true, true, false, false, false, true, true,
          false)), (String ((Ascii (false, false, false, true, false, true,
          true, false)), (String ((Ascii (true, false, true, false, false,
          true, true, false)), (String ((Ascii (true, false, true, true,
          false, true, true, false)), (String ((Ascii (true, false, false,
          false, false, true, true, false)),
          EmptyString)))))))))))))))))))))))), EmptyString)) :: [])))) :: [])))) :: []))) :: (((String
    ((Ascii (true, true, false, false, true, true, true, false)), (String
    ((Ascii (false, false, true, false, true, true, true, false)), (String
    ((Ascii (true, false, false, false, false, true, true, false)), (String
    ((Ascii (false, false, true, false, true, true, true, false)), (String
    ((Ascii (true, false, true, false, false, true, true, false)), (String
    ((Ascii (true, true, false, false, true, false, true, false)), (String
    ((Ascii (true, false, true, false, false, true, true, false)),
    EmptyString)))))))))))))),
    (block ((SIf ((CByte (Npos (XO (XI (XO (XO (XI (XO XH)))))))),
      (block ((SSetStep st_stateSer) :: (SRetNil :: []))),
      (block ((SRetErr ((String ((Ascii (true, false, false, true, false,
        true, true, false)), (String ((Ascii (false, true, true, true, false,
        true, true, false)), (String ((Ascii (false, false, false, false,
        false, true, false, false)), (String ((Ascii (true, true, false,
        true, false, true, true, false)), (String ((Ascii (true, false, true,
        false, false, true, true, false)), (String ((Ascii (true, false,
        false, true, true, true, true, false)), (String ((Ascii (true, true,
        true, false, true, true, true, false)), (String ((Ascii (true, true,
        true, true, false, true, true, false)), (String ((Ascii (false, true,
        false, false, true, true, true, false)), (String ((Ascii (false,
        false, true, false, false, true, true, false)), (String ((Ascii
        (false, false, false, false, false, true, false, false)), (String
        ((Ascii (true, true, false, false, true, false, true, false)),
        (String ((Ascii (true, false, true, false, false, false, true,
        false)), (String ((Ascii (false, true, false, false, true, false,
        true, false)), (String ((Ascii (false, true, true, false, true,
        false, true, false)), (String ((Ascii (true, false, true, false,
        false, false, true, false)), (String ((Ascii (false, true, false,
        false, true, false, true, false)),
        EmptyString)))))))))))))))))))))))))))))))))), (String ((Ascii
        (false, true, false, false, true, false, true, false)),
        EmptyString)))) :: [])))) :: []))) :: (((String ((Ascii (true, true,
    false, false, true, true, true, false)), (String ((Ascii (false, false,
    true, false, true, true, true, false)), (String ((Ascii (true, false,
    false, false, false, true, true, false)), (String ((Ascii (false, false,
    true, false, true, true, true, false)), (String ((Ascii (true, false,
    true, false, false, true, true, false)), (String ((Ascii (true, true,
    false, false, true, false, true, false)), (String ((Ascii (true, false,
    true, false, false, true, true, false)), (String ((Ascii (false, true,
    false, false, true, true, true, false)), EmptyString)))))))))))))))),
    (block ((SIf ((CByte (Npos (XO (XI (XI (XO (XI (XO XH)))))))),
      (block ((SSetStep st_stateServ) :: (SRetNil :: []))),
      (block ((SRetErr ((String ((Ascii (true, false, false, true, false,
        true, true, false)), (String ((Ascii (false, true, true, true, false,
        true, true, false)), (String ((Ascii (false, false, false, false,
        false, true, false, false)), (String ((Ascii (true, true, false,
        true, false, true, true, false)), (String ((Ascii (true, false, true,
        false, false, true, true, false)), (String ((Ascii (true, false,
        false, true, true, true, true, false)), (String ((Ascii (true, true,
        true, false, true, true, true, false)), (String ((Ascii (true, true,
        true, true, false, true, true, false)), (String ((Ascii (false, true,
        false, false, true, true, true, false)), (String ((Ascii (false,
        false, true, false, false, true, true, false)), (String ((Ascii
        (false, false, false, false, false, true, false, false)), (String
        ((Ascii (true, true, false, false, true, false, true, false)),
        (String ((Ascii (true, false, true, false, false, false, true,
        false)), (String ((Ascii (false, true, false, false, true, false,
        true, false)), (String ((Ascii (false, true, true, false, true,
        false, true, false)), (String ((Ascii (true, false, true, false,
        false, false, true, false)), (String ((Ascii (false, true, false,
        false, true, false, true, false)),
        EmptyString)))))))))))))))))))))))))))))))))), (String ((Ascii
        (false, true, true, false, true, false, true, false)),
        EmptyString)))) :: [])))) :: []))) :: (((String ((Ascii (true, true,
    false, false, true, true, true, false)), (String ((Ascii (false, false,
    true, false, true, true, true, false)), (String ((Ascii (true, false,
    false, false, false, true, true, false)), (String ((Ascii (false, false,
    true, false, true, true, true, false)), (String ((Ascii (true, false,
    true, false, false, true, true, false)), (String ((Ascii (true, true,
    false, false, true, false, true, false)), (String ((Ascii (true, false,
    true, false, false, true, true, false)), (String ((Ascii (false, true,
    false, false, true, true, true, false)), (String ((Ascii (false, true,
    true, false, true, true, true, false)), EmptyString)))))))))))))))))),
    (block ((SIf ((CByte (Npos (XI (XO (XI (XO (XO (XO XH)))))))),
      (block ((SSetStep st_stateServe) :: (SRetNil :: []))),
      (block ((SRetErr ((String ((Ascii (true, false, false, true, false,
        true, true, false)), (String ((Ascii (false, true, true, true, false,
        true, true, false)), (String ((Ascii (false, false, false, false,
        false, true, false, false)), (String ((Ascii (true, true, false,
        true, false, true, true, false)), (String ((Ascii (true, false, true,
        false, false, true, true, false)), (String ((Ascii (true, false,
        false, true, true, true, true, false)), (String ((Ascii (true, true,
        true, false, true, true, true, false)), (String ((Ascii (true, true,
        true, true, false, true, true, false)), (String ((Ascii (false, true,
        false, false, true, true, true, false)), (String ((Ascii (false,
        false, true, false, false, true, true, false)), (String ((Ascii
        (false, false, false, false, false, true, false, false)), (String
        ((Ascii (true, true, false, false, true, false, true, false)),
        (String ((Ascii (true, false, true, false, false, false, true,
        false)), (String ((Ascii (false, true, false, false, true, false,
        true, false)), (String ((Ascii (false, true, true, false, true,
        false, true, false)), (String ((Ascii (true, false, true, false,
        false, false, true, false)), (String ((Ascii (false, true, false,
        false, true, false, true, false)),
        EmptyString)))))))))))))))))))))))))))))))))), (String ((Ascii (true,
        false, true, false, false, false, true, false)),
        EmptyString)))) :: [])))) :: []))) :: (((String ((Ascii (true, true,
    false, false, true, true, true, false)), (String ((Ascii (false, false,
    true, false, true, true, true, false)), (String ((Ascii (true, false,
    false, false, false, true, true, false)), (String ((Ascii (false, false,
    true, false, true, true, true, false)), (String ((Ascii (true, false,
    true, false, false, true, true, false)), (String ((Ascii (true, true,
    false, false, true, false, true, false)), (String ((Ascii (true, false,
    true, false, false, true, true, false)), (String ((Ascii (false, true,
    false, false, true, true, true, false)), (String ((Ascii (false, true,
    true, false, true, true, true, false)), (String ((Ascii (true, false,
    true, false, false, true, true, false)), EmptyString)))))))))))))))))))),
    (block ((SIf ((CByte (Npos (XO (XI (XO (XO (XI (XO XH)))))))),
      (block ((SFound (KeywordEnd, Z0)) :: ((SPush
        st_stateExpectKeyword) :: ((SSetStep
        st_stateParameterOrAnnotation) :: (SRetNil :: []))))),
      (block ((SRetErr ((String ((Ascii (true, false, false, true, false,
        true, true, false)), (String ((Ascii (false, true, true, true, false,
        true, true, false)), (String ((Ascii (false, false, false, false,
        false, true, false, false)), (String ((Ascii (true, true, false,
        true, false, true, true, false)), (String ((Ascii (true, false, true,
        false, false, true, true, false)), (String ((Ascii (true, false,
        false, true, true, true, true, false)), (String ((Ascii (true, true,
        true, false, true, true, true, false)), (String ((Ascii (true, true,
        true, true, false, true, true, false)), (String ((Ascii (false, true,
        false, false, true, true, true, false)), (String ((Ascii (false,
        false, true, false, false, true, true, false)), (String ((Ascii
        (false, false, false, false, false, true, false, false)), (String
        ((Ascii (true, true, false, false, true, false, true, false)),
        (String ((Ascii (true, false, true, false, false, false, true,
        false)), (String ((Ascii (false, true, false, false, true, false,
        true, false)), (String ((Ascii (false, true, true, false, true,
        false, true, false)), (String ((Ascii (true, false, true, false,
        false, false, true, false)), (String ((Ascii (false, true, false,
        false, true, false, true, false)),
        EmptyString)))))))))))))))))))))))))))))))))), (String ((Ascii
        (false, true, false, false, true, false, true, false)),
        EmptyString)))) :: [])))) :: []))) :: (((String ((Ascii (true, true,
    false, false, true, true, true, false)), (String ((Ascii (false, false,
    true, false, true, true, true, false)), (String ((Ascii (true, false,
    false, false, false, true, true, false)), (String ((Ascii (false, false,
    true, false, true, true, true, false)), (String ((Ascii (true, false,
    true, false, false, true, true, false)), (String ((Ascii (true, true,
    false, false, true, false, true, false)), (String ((Ascii (true, false,
    false, true, false, true, true, false)), (String ((Ascii (false, true,
    true, true, false, true, true, false)), (String ((Ascii (true, true,
    true, false, false, true, true, false)), (String ((Ascii (false, false,
    true, true, false, true, true, false)), (String ((Ascii (true, false,
    true, false, false, true, true, false)), (String ((Ascii (true, true,
    false, false, false, false, true, false)), (String ((Ascii (true, true,
    true, true, false, true, true, false)), (String ((Ascii (true, false,
    true, true, false, true, true, false)), (String ((Ascii (true, false,
    true, true, false, true, true, false)), (String ((Ascii (true, false,
    true, false, false, true, true, false)), (String ((Ascii (false, true,
    true, true, false, true, true, false)), (String ((Ascii (false, false,
    true, false, true, true, true, false)),
    EmptyString)))))))))))))))))))))))))))))))))))),
    (block ((SIf ((COr (CNewLine, (CByte N0))),
      (block (SPop :: (SRetRedispatch :: []))),
      (block (SRetNil :: [])))) :: []))) :: (((String ((Ascii (true, true,
    false, false, true, true, true, false)), (String ((Ascii (false, false,
    true, false, true, true, true, false)), (String ((Ascii (true, false,
    false, false, false, true, true, false)), (String ((Ascii (false, false,
    true, false, true, true, true, false)), (String ((Ascii (true, false,
    true, false, false, true, true, false)), (String ((Ascii (false, false,
    true, false, true, false, true, false)), EmptyString)))))))))))),
    (block ((SIf ((CByte (Npos (XI (XO (XO (XI (XO (XI XH)))))))),
      (block ((SSetStep st_stateTi) :: (SRetNil :: []))),
      (block ((SIf ((CByte (Npos (XI (XO (XO (XI (XI (XO XH)))))))),
        (block ((SSetStep st_stateTy) :: (SRetNil :: []))),
        (block ((SIf ((CByte (Npos (XI (XO (XO (XO (XO (XO XH)))))))),
          (block ((SSetStep st_stateTA) :: (SRetNil :: []))),
          (block ((SIf ((CByte (Npos (XI (XO (XO (XO (XO (XI XH)))))))),
            (block ((SSetStep st_stateTa) :: (SRetNil :: []))),
            (block ((SRetErr ((String ((Ascii (true, false, false, true,
              false, true, true, false)), (String ((Ascii (false, true, true,
              true, false, true, true, false)), (String ((Ascii (false,
              false, false, false, false, true, false, false)), (String
              ((Ascii (false, false, true, false, false, true, true, false)),
              (String ((Ascii (true, false, false, true, false, true, true,
              false)), (String ((Ascii (false, true, false, false, true,
              true, true, false)), (String ((Ascii (true, false, true, false,
              false, true, true, false)), (String ((Ascii (true, true, false,
              false, false, true, true, false)), (String ((Ascii (false,
              false, true, false, true, true, true, false)), (String ((Ascii
              (true, false, false, true, false, true, true, false)), (String
              ((Ascii (false, true, true, false, true, true, true, false)),
              (String ((Ascii (true, false, true, false, false, true, true,
              false)), (String ((Ascii (false, false, false, false, false,
              true, false, false)), (String ((Ascii (false, true, true, true,
              false, true, true, false)), (String ((Ascii (true, false,
              false, false, false, true, true, false)), (String ((Ascii
              (true, false, true, true, false, true, true, false)), (String
              ((Ascii (true, false, true, false, false, true, true, false)),
              EmptyString)))))))))))))))))))))))))))))))))),
              EmptyString)) :: [])))) :: [])))) :: [])))) :: [])))) :: []))) :: (((String
    ((Ascii (true, true, false, false, true, true, true, false)), (String
    ((Ascii (false, false, true, false, true, true, true, false)), (String
    ((Ascii (true, false, false, false, false, true, true, false)), (String
    ((Ascii (false, false, true, false, true, true, true, false)), (String
    ((Ascii (true, false, true, false, false, true, true, false)), (String
    ((Ascii (false, false, true, false, true, false, true, false)), (String
    ((Ascii (true, false, false, false, false, false, true, false)),
    EmptyString)))))))))))))),
    (block ((SIf ((CNot (CByte (Npos (XI (XI (XI (XO (XO (XO XH))))))))),
      (block ((SRetErr ((String ((Ascii (true, false, false, true, false,
        true, true, false)), (String ((Ascii (false, true, true, true, false,
        true, true, false)), (String ((Ascii (false, false, false, false,
        false, true, false, false)), (String ((Ascii (true, true, false,
        true, false, true, true, false)), (String ((Ascii (true, false, true,
        false, false, true, true, false)), (String ((Ascii (true, false,
        false, true, true, true, true, false)), (String ((Ascii (true, true,
        true, false, true, true, true, false)), (String ((Ascii (true, true,
        true, true, false, true, true, false)), (String ((Ascii (false, true,
        false, false, true, true, true, false)), (String ((Ascii (false,
        false, true, false, false, true, true, false)), (String ((Ascii
        (false, false, false, false, false, true, false, false)), (String
        ((Ascii (false, false, true, false, true, false, true, false)),
        (String ((Ascii (true, false, false, false, false, false, true,
        false)), (String ((Ascii (true, true, true, false, false, false,
        true, false)), EmptyString)))))))))))))))))))))))))))), (String
        ((Ascii (true, true, true, false, false, false, true, false)),
        EmptyString)))) :: [])), SSkip)) :: ((SFound (KeywordEnd,
      Z0)) :: ((SPush st_stateExpectKeyword) :: ((SSetStep
      st_stateParameterOrAnnotation) :: (SRetNil :: []))))))) :: (((String
    ((Ascii (true, true, false, false, true, true, true, false)), (String
    ((Ascii (false, false, true, false, true, true, true, false)), (String
    ((Ascii (true, false, false, false, false, true, true, false)), (String
    ((Ascii (false, false, true, false, true, true, true, false)), (String
    ((Ascii (true, false, true, false, false, true, true, false)), (String
    ((Ascii (false, false, true, false, true, false, true, false)), (String
    ((Ascii (true, false, false, false, false, true, true, false)),
    EmptyString)))))))))))))),
    (block ((SIf ((CNot (CByte (Npos (XI (XI (XI (XO (XO (XI XH))))))))),
      (block ((SRetErr ((String ((Ascii (true, false, false, true, false,
        true, true, false)), (String ((Ascii (false, true, true, true, false,
        true, true, false)), (String ((Ascii (false, false, false, false,
        false, true, false, false)), (String ((Ascii (true, true, false,
        true, false, true, true, false)), (String ((Ascii (true, false, true,
        false, false, true, true, false)), (String ((Ascii (true, false,
        false, true, true, true, true, false)), (String ((Ascii (true, true,
        true, false, true, true, true, false)), (String ((Ascii (true, true,
        true, true, false, true, true, false)), (String ((Ascii (false, true,
        false, false, true, true, true, false)), (String ((Ascii (false,
        false, true, false, false, true, true, false)), (String ((Ascii
        (false, false, false, false, false, true, false, false)), (String
        ((Ascii (false, true, false, false, false, true, false, false)),
        (String ((Ascii (false, false, true, false, true, false, true,
        false)), (String ((Ascii (true, false, false, false, false, true,
        true, false)), (String ((Ascii (true, true, true, false, false, true,
        true, false)), (String ((Ascii (true, true, false, false, true, true,
        true, false)), (String ((Ascii (false, true, false, false, false,
        true, false, false)), EmptyString)))))))))))))))))))))))))))))))))),
        (String ((Ascii (true, true, true, false, false, true, true, false)),
        EmptyString)))) :: [])), SSkip)) :: ((SSetStep
      st_stateTag) :: (SRetNil :: []))))) :: (((String ((Ascii (true, true,
    false, false, true, true, true, false)), (String ((Ascii (false, false,
    true, false, true, true, true, false)), (String ((Ascii (true, false,
    false, false, false, true, true, false)), (String ((Ascii (false, false,
    true, false, true, true, true, false)), (String ((Ascii (true, false,
    true, false, false, true, true, false)), (String ((Ascii (false, false,
    true, false, true, false, true, false)), (String ((Ascii (true, false,
    false, false, false, true, true, false)), (String ((Ascii (true, true,
    true, false, false, true, true, false)), EmptyString)))))))))))))))),
    (block ((SIf ((CNot (CByte (Npos (XI (XI (XO (XO (XI (XI XH))))))))),
      (block ((SRetErr ((String ((Ascii (true, false, false, true, false,
        true, true, false)), (String ((Ascii (false, true, true, true, false,
        true, true, false)), (String ((Ascii (false, false, false, false,
        false, true, false, false)), (String ((Ascii (true, true, false,
        true, false, true, true, false)), (String ((Ascii (true, false, true,
        false, false, true, true, false)), (String ((Ascii (true, false,
        false, true, true, true, true, false)), (String ((Ascii (true, true,
        true, false, true, true, true, false)), (String ((Ascii (true, true,
        true, true, false, true, true, false)), (String ((Ascii (false, true,
        false, false, true, true, true, false)), (String ((Ascii (false,
        false, true, false, false, true, true, false)), (String ((Ascii
        (false, false, false, false, false, true, false, false)), (String
        ((Ascii (false, true, false, false, false, true, false, false)),
        (String ((Ascii (false, false, true, false, true, false, true,
        false)), (String ((Ascii (true, false, false, false, false, true,
        true, false)), (String ((Ascii (true, true, true, false, false, true,
        true, false)), (String ((Ascii (true, true, false, false, true, true,
        true, false)), (String ((Ascii (false, true, false, false, false,
        true, false, false)), EmptyString)))))))))))))))))))))))))))))))))),
        (String ((Ascii (true, true, false, false, true, true, true, false)),
        EmptyString)))) :: [])), SSkip)) :: ((SFound (KeywordEnd,
      Z0)) :: ((SPush st_stateExpectKeyword) :: ((SSetStep
      st_stateParameterOrAnnotation) :: (SRetNil :: []))))))) :: (((String
    ((Ascii (true, true, false, false, true, true, true, false)), (String
    ((Ascii (false, false, true, false, true, true, true, false)), (String
    ((Ascii (true, false, false, false, false, true, true, false)), (String
    ((Ascii (false, false, true, false, true, true, true, false)), (String
    ((Ascii (true, false, true, false, false, true, true, false)), (String
    ((Ascii (false, false, true, false, true, false, true, false)), (String
    ((Ascii (true, false, false, true, false, true, true, false)),
    EmptyString)))))))))))))),
    (block ((SIf ((CByte (Npos (XO (XO (XI (XO (XI (XI XH)))))))),
      (block ((SSetStep st_stateTit) :: (SRetNil :: []))),
      (block ((SRetErr ((String ((Ascii (true, false, false, true, false,
        true, true, false)), (String ((Ascii (false, true, true, true, false,
        true, true, false)), (String ((Ascii (false, false, false, false,
        false, true, false, false)), (String ((Ascii (true, true, false,
        true, false, true, true, false)), (String ((Ascii (true, false, true,
        false, false, true, true, false)), (String ((Ascii (true, false,
        false, true, true, true, true, false)), (String ((Ascii (true, true,
        true, false, true, true, true, false)), (String ((Ascii (true, true,
        true, true, false, true, true, false)), (String ((Ascii (false, true,
        false, false, true, true, true, false)), (String ((Ascii (false,
        false, true, false, false, true, true, false)), (String ((Ascii
        (false, false, false, false, false, true, false, false)), (String
        ((Ascii (false, false, true, false, true, false, true, false)),
        (String ((Ascii (true, false, false, true, false, true, true,
        false)), (String ((Ascii (false, false, true, false, true, true,
        true, false)), (String ((Ascii (false, false, true, true, false,
        true, true, false)), (String ((Ascii (true, false, true, false,
        false, true, true, false)),
        EmptyString)))))))))))))))))))))))))))))))), (String ((Ascii (false,
        false, true, false, true, true, true, false)),
        EmptyString)))) :: [])))) :: []))) :: (((String ((Ascii (true, true,
    false, false, true, true, true, false)), (String ((Ascii (false, false,
    true, false, true, true, true, false)), (String ((Ascii (true, false,
    false, false, false, true, true, false)), (String ((Ascii (false, false,
    true, false, true, true, true, false)), (String ((Ascii (true, false,
    true, false, false, true, true, false)), (String ((Ascii (false, false,
    true, false, true, false, true, false)), (String ((Ascii (true, false,
    false, true, false, true, true, false)), (String ((Ascii (false, false,
    true, false, true, true, true, false)), EmptyString)))))))))))))))),
    (block ((SIf ((CByte (Npos (XO (XO (XI (XI (XO (XI XH)))))))),
      (block ((SSetStep st_stateTitl) :: (SRetNil :: []))),
      (block ((SRetErr ((String ((Ascii (true, false, false, true, false,
        true, true, false)), (String ((Ascii (false, true, true, true, false,
        true, true, false)), (String ((Ascii (false, false, false, false,
        false, true, false, false)), (String ((Ascii (true, true, false,
        true, false, true, true, false)), (String ((Ascii (true, false, true,
        false, false, true, true, false)), (String ((Ascii (true, false,
        false, true, true, true, true, false)), (String ((Ascii (true, true,
        true, false, true, true, true, false)), (String ((Ascii (true, true,
        true, true, false, true, true, false)), (String ((Ascii (false, true,
        false, false, true, true, true, false)), (String ((Ascii (false,
        false, true, false, false, true, true, false)), (String ((Ascii
        (false, false, false, false, false, true, false, false)), (String
        ((Ascii (false, false, true, false, true, false, true, false)),
        (String ((Ascii (true, false, false, true, false, true, true,
        false)), (String ((Ascii (false, false, true, false, true, true,
        true, false)), (String ((Ascii (false, false, true, true, false,
        true, true, false)), (String ((Ascii (true, false, true, false,
        false, true, true, false)),
        EmptyString)))))))))))))))))))))))))))))))), (String ((Ascii (false,
        false, true, true, false, true, true, false)),
        EmptyString)))) :: [])))) :: []))) :: (((String ((Ascii (true, true,
    false, false, true, true, true, false)), (String ((Ascii (false, false,
    true, false, true, true, true, false)), (String ((Ascii (true, false,
    false, false, false, true, true, false)), (String ((Ascii (false, false,
    true, false, true, true, true, false)), (String ((Ascii (true, false,
    true, false, false, true, true, false)), (String ((Ascii (false, false,
    true, false, true, false, true, false)), (String ((Ascii (true, false,
    false, true, false, true, true, false)), (String ((Ascii (false, false,
    true, false, true, true, true, false)), (String ((Ascii (false, false,
    true, true, false, true, true, false)), EmptyString)))))))))))))))))),
    (block ((SIf ((CByte (Npos (XI (XO (XI (XO (XO (XI XH)))))))),
      (block ((SFound (KeywordEnd, Z0)) :: ((SPush
        st_stateExpectKeyword) :: ((SSetStep
        st_stateParameterOrAnnotation) :: (SRetNil :: []))))),
      (block ((SRetErr ((String ((Ascii (true, false, false, true, false,
        true, true, false)), (String ((Ascii (false, true, true, true, false,
        true, true, false)), (String ((Ascii (false, false, false, false,
        false, true, false, false)), (String ((Ascii (true, true, false,
        true, false, true, true, false)), (String ((Ascii (true, false, true,
        false, false, true, true, false)), (String ((Ascii (true, false,
        false, true, true, true, true, false)), (String ((Ascii (true, true,
        true, false, true, true, true, false)), (String ((Ascii (true, true,
        true, true, false, true, true, false)), (String ((Ascii (false, true,
        false, false, true, true, true, false)), (String ((Ascii (false,
        false, true, false, false, true, true, false)), (String ((Ascii
        (false, false, false, false, false, true, false, false)), (String
        ((Ascii (false, false, true, false, true, false, true, false)),
        (String ((Ascii (true, false, false, true, false, true, true,
        false)), (String ((Ascii (false, false, true, false, true, true,
        true, false)), (String ((Ascii (false, false, true, true, false,
        true, true, false)), (String ((Ascii (true, false, true, false,
        false, true, true, false)),
        EmptyString)))))))))))))))))))))))))))))))), (String ((Ascii (false,
        false, true, true, false, true, true, false)),
        EmptyString)))) :: [])))) :: []))) :: (((String ((Ascii (true, true,
    false, false, true, true, true, false)), (String ((Ascii (false, false,
    true, false, true, true, true, false)), (String ((Ascii (true, false,
    false, false, false, true, true, false)), (String ((Ascii (false, false,
    true, false, true, true, true, false)), (String ((Ascii (true, false,
    true, false, false, true, true, false)), (String ((Ascii (false, false,
    true, false, true, false, true, false)), (String ((Ascii (true, false,
    false, true, true, true, true, false)), EmptyString)))))))))))))),
    (block ((SIf ((CByte (Npos (XO (XO (XO (XO (XI (XO XH)))))))),
      (block ((SSetStep st_stateTyp) :: (SRetNil :: []))),
      (block ((SRetErr ((String ((Ascii (true, false, false, true, false,
        true, true, false)), (String ((Ascii (false, true, true, true, false,
        true, true, false)), (String ((Ascii (false, false, false, false,
        false, true, false, false)), (String ((Ascii (true, true, false,
        true, false, true, true, false)), (String ((Ascii (true, false, true,
        false, false, true, true, false)), (String ((Ascii (true, false,
        false, true, true, true, true, false)), (String ((Ascii (true, true,
        true, false, true, true, true, false)), (String ((Ascii (true, true,
        true, true, false, true, true, false)), (String ((Ascii (false, true,
        false, false, true, true, true, false)), (String ((Ascii (false,
        false, true, false, false, true, true, false)), (String ((Ascii
        (false, false, false, false, false, true, false, false)), (String
        ((Ascii (false, false, true, false, true, false, true, false)),
        (String ((Ascii (true, false, false, true, true, false, true,
        false)), (String ((Ascii (false, false, false, false, true, false,
        true, false)), (String ((Ascii (true, false, true, false, false,
        false, true, false)), EmptyString)))))))))))))))))))))))))))))),
        (String ((Ascii (false, false, false, false, true, false, true,
        false)), EmptyString)))) :: [])))) :: []))) :: (((String ((Ascii
    (true, true, false, false, true, true, true, false)), (String ((Ascii
    (false, false, true, false, true, true, true, false)), (String ((Ascii
    (true, false, false, false, false, true, true, false)), (String ((Ascii
    (false, false, true, false, true, true, true, false)), (String ((Ascii
    (true, false, true, false, false, true, true, false)), (String ((Ascii
    (false, false, true, false, true, false, true, false)), (String ((Ascii
    (true, false, false, true, true, true, true, false)), (String ((Ascii
    (false, false, false, false, true, true, true, false)),
    EmptyString)))))))))))))))),
    (block ((SIf ((CByte (Npos (XI (XO (XI (XO (XO (XO XH)))))))),
      (block ((SFound (KeywordEnd, Z0)) :: ((SPush
        st_stateTypeBodyOrKeyword) :: ((SSetStep
        st_stateParameterOrAnnotation) :: (SRetNil :: []))))),
      (block ((SRetErr ((String ((Ascii (true, false, false, true, false,
        true, true, false)), (String ((Ascii (false, true, true, true, false,
        true, true, false)), (String ((Ascii (false, false, false, false,
        false, true, false, false)), (String ((Ascii (true, true, false,
        true, false, true, true, false)), (String ((Ascii (true, false, true,
        false, false, true, true, false)), (String ((Ascii (true, false,
        false, true, true, true, true, false)), (String ((Ascii (true, true,
        true, false, true, true, true, false)), (String ((Ascii (true, true,
        true, true, false, true, true, false)), (String ((Ascii (false, true,
        false, false, true, true, true, false)), (String ((Ascii (false,
        false, true, false, false, true, true, false)), (String ((Ascii
        (false, false, false, false, false, true, false, false)), (String
        ((Ascii (false, false, true, false, true, false, true, false)),
        (String ((Ascii (true, false, false, true, true, false, true,
        false)), (String ((Ascii (false, false, false, false, true, false,
        true, false)), (String ((Ascii (true, false, true, false, false,
        false, true, false)), EmptyString)))))))))))))))))))))))))))))),
        (String ((Ascii (true, false, true, false, false, false, true,
        false)), EmptyString)))) :: [])))) :: []))) :: (((String ((Ascii
    (true, true, false, false, true, true, true, false)), (String ((Ascii
    (false, false, true, false, true, true, true, false)), (String ((Ascii
    (true, false, false, false, false, true, true, false)), (String ((Ascii
    (false, false, true, false, true, true, true, false)), (String ((Ascii
    (true, false, true, false, false, true, true, false)), (String ((Ascii
    (false, false, true, false, true, false, true, false)), (String ((Ascii
    (true, false, false, true, true, true, true, false)), (String ((Ascii
    (false, false, false, false, true, true, true, false)), (String ((Ascii
    (true, false, true, false, false, true, true, false)), (String ((Ascii
    (false, true, false, false, false, false, true, false)), (String ((Ascii
    (true, true, true, true, false, true, true, false)), (String ((Ascii
    (false, false, true, false, false, true, true, false)), (String ((Ascii
    (true, false, false, true, true, true, true, false)),
    EmptyString)))))))))))))))))))))))))),
    (block ((SIf ((COr (CWhitespace, CNewLine)), (block (SRetNil :: [])),
      (block ((SIf ((CByte (Npos (XO (XO (XO (XI (XO XH))))))),
        (block ((SFound (ContextOpen, Z0)) :: (SRetNil :: []))),
        (block (SPop :: (SRetRedispatch :: []))))) :: [])))) :: []))) :: (((String
    ((Ascii (true, true, false, false, true, true, true, false)), (String
    ((Ascii (false, false, true, false, true, true, true, false)), (String
    ((Ascii (true, false, false, false, false, true, true, false)), (String
    ((Ascii (false, false, true, false, true, true, true, false)), (String
    ((Ascii (true, false, true, false, false, true, true, false)), (String
    ((Ascii (false, false, true, false, true, false, true, false)), (String
    ((Ascii (true, false, false, true, true, true, true, false)), (String
    ((Ascii (false, false, false, false, true, true, true, false)), (String
    ((Ascii (true, false, true, false, false, true, true, false)), (String
    ((Ascii (false, true, false, false, false, false, true, false)), (String
    ((Ascii (true, true, true, true, false, true, true, false)), (String
    ((Ascii (false, false, true, false, false, true, true, false)), (String
    ((Ascii (true, false, false, true, true, true, true, false)), (String
    ((Ascii (true, true, true, true, false, false, true, false)), (String
    ((Ascii (false, true, false, false, true, true, true, false)), (String
    ((Ascii (true, true, false, true, false, false, true, false)), (String
    ((Ascii (true, false, true, false, false, true, true, false)), (String
    ((Ascii (true, false, false, true, true, true, true, false)), (String
    ((Ascii (true, true, true, false, true, true, true, false)), (String
    ((Ascii (true, true, true, true, false, true, true, false)), (String
    ((Ascii (false, true, false, false, true, true, true, false)), (String
    ((Ascii (false, false, true, false, false, true, true, false)),
    EmptyString)))))))))))))))))))))))))))))))))))))))))))),
    (block ((SIf ((CCtx QAnyOrEmpty),
      (block ((SIf ((CCtx QRegex), (block ((SPush st_stateRegex) :: [])),
        (block ((SPush st_stateJSchema) :: [])))) :: ((SSetStep
        st_stateTypeBody) :: []))),
      (block ((SSetStep st_stateExpectKeyword) :: [])))) :: (SRetRedispatch :: [])))) :: (((String
    ((Ascii (true, true, false, false, true, true, true, false)), (String
    ((Ascii (false, false, true, false, true, true, true, false)), (String
    ((Ascii (true, false, false, false, false, true, true, false)), (String
    ((Ascii (false, false, true, false, true, true, true, false)), (String
    ((Ascii (true, false, true, false, false, true, true, false)), (String
    ((Ascii (true, false, true, false, true, false, true, false)),
    EmptyString)))))))))))),
    (block ((SIf ((CByte (Npos (XO (XI (XO (XO (XI (XO XH)))))))),
      (block ((SSetStep st_stateUR) :: (SRetNil :: []))),
      (block ((SRetErr ((String ((Ascii (true, false, false, true, false,
        true, true, false)), (String ((Ascii (false, true, true, true, false,
        true, true, false)), (String ((Ascii (false, false, false, false,
        false, true, false, false)), (String ((Ascii (true, true, false,
        true, false, true, true, false)), (String ((Ascii (true, false, true,
        false, false, true, true, false)), (String ((Ascii (true, false,
        false, true, true, true, true, false)), (String ((Ascii (true, true,
        true, false, true, true, true, false)), (String ((Ascii (true, true,
        true, true, false, true, true, false)), (String ((Ascii (false, true,
        false, false, true, true, true, false)), (String ((Ascii (false,
        false, true, false, false, true, true, false)), (String ((Ascii
        (false, false, false, false, false, true, false, false)), (String
        ((Ascii (true, false, true, false, true, false, true, false)),
        (String ((Ascii (false, true, false, false, true, false, true,
        false)), (String ((Ascii (false, false, true, true, false, false,
        true, false)), EmptyString)))))))))))))))))))))))))))), (String
        ((Ascii (false, true, false, false, true, false, true, false)),
        EmptyString)))) :: [])))) :: []))) :: (((String ((Ascii (true, true,
    false, false, true, true, true, false)), (String ((Ascii (false, false,
    true, false, true, true, true, false)), (String ((Ascii (true, false,
    false, false, false, true, true, false)), (String ((Ascii (false, false,
    true, false, true, true, true, false)), (String ((Ascii (true, false,
    true, false, false, true, true, false)), (String ((Ascii (true, false,
    true, false, true, false, true, false)), (String ((Ascii (false, true,
    false, false, true, false, true, false)), EmptyString)))))))))))))),
    (block ((SIf ((CByte (Npos (XO (XO (XI (XI (XO (XO XH)))))))),
      (block ((SFound (KeywordEnd, Z0)) :: ((SPush
        st_stateExpectKeyword) :: ((SSetStep
        st_stateParameterOrAnnotation) :: (SRetNil :: []))))),
      (block ((SRetErr ((String ((Ascii (true, false, false, true, false,
        true, true, false)), (String ((Ascii (false, true, true, true, false,
        true, true, false)), (String ((Ascii (false, false, false, false,
        false, true, false, false)), (String ((Ascii (true, true, false,
        true, false, true, true, false)), (String ((Ascii (true, false, true,
        false, false, true, true, false)), (String ((Ascii (true, false,
        false, true, true, true, true, false)), (String ((Ascii (true, true,
        true, false, true, true, true, false)), (String ((Ascii (true, true,
        true, true, false, true, true, false)), (String ((Ascii (false, true,
        false, false, true, true, true, false)), (String ((Ascii (false,
        false, true, false, false, true, true, false)), (String ((Ascii
        (false, false, false, false, false, true, false, false)), (String
        ((Ascii (true, false, true, false, true, false, true, false)),
        (String ((Ascii (false, true, false, false, true, false, true,
        false)), (String ((Ascii (false, false, true, true, false, false,
        true, false)), EmptyString)))))))))))))))))))))))))))), (String
        ((Ascii (false, false, true, true, false, false, true, false)),
        EmptyString)))) :: [])))) :: []))) :: (((String ((Ascii (true, true,
    false, false, true, true, true, false)), (String ((Ascii (false, false,
    true, false, true, true, true, false)), (String ((Ascii (true, false,
    false, false, false, true, true, false)), (String ((Ascii (false, false,
    true, false, true, true, true, false)), (String ((Ascii (true, false,
    true, false, false, true, true, false)), (String ((Ascii (false, true,
    true, false, true, false, true, false)), EmptyString)))))))))))),
    (block ((SIf ((CByte (Npos (XI (XO (XI (XO (XO (XI XH)))))))),
      (block ((SSetStep st_stateVe) :: (SRetNil :: []))),
      (block ((SRetErr ((String ((Ascii (true, false, false, true, false,
        true, true, false)), (String ((Ascii (false, true, true, true, false,
        true, true, false)), (String ((Ascii (false, false, false, false,
        false, true, false, false)), (String ((Ascii (false, false, true,
        false, false, true, true, false)), (String ((Ascii (true, false,
        false, true, false, true, true, false)), (String ((Ascii (false,
        true, false, false, true, true, true, false)), (String ((Ascii (true,
        false, true, false, false, true, true, false)), (String ((Ascii
        (true, true, false, false, false, true, true, false)), (String
        ((Ascii (false, false, true, false, true, true, true, false)),
        (String ((Ascii (true, false, false, true, false, true, true,
        false)), (String ((Ascii (false, true, true, false, true, true, true,
        false)), (String ((Ascii (true, false, true, false, false, true,
        true, false)), (String ((Ascii (false, false, false, false, false,
        true, false, false)), (String ((Ascii (false, true, true, false,
        true, false, true, false)), (String ((Ascii (true, false, true,
        false, false, true, true, false)), (String ((Ascii (false, true,
        false, false, true, true, true, false)), (String ((Ascii (true, true,
        false, false, true, true, true, false)), (String ((Ascii (true,
        false, false, true, false, true, true, false)), (String ((Ascii
        (true, true, true, true, false, true, true, false)), (String ((Ascii
        (false, true, true, true, false, true, true, false)),
        EmptyString)))))))))))))))))))))))))))))))))))))))), (String ((Ascii
        (true, false, true, false, false, true, true, false)),
        EmptyString)))) :: [])))) :: []))) :: (((String ((Ascii (true, true,
    false, false, true, true, true, false)), (String ((Ascii (false, false,
    true, false, true, true, true, false)), (String ((Ascii (true, false,
    false, false, false, true, true, false)), (String ((Ascii (false, false,
    true, false, true, true, true, false)), (String ((Ascii (true, false,
    true, false, false, true, true, false)), (String ((Ascii (false, true,
    true, false, true, false, true, false)), (String ((Ascii (true, false,
    true, false, false, true, true, false)), EmptyString)))))))))))))),
    (block ((SIf ((CByte (Npos (XO (XI (XO (XO (XI (XI XH)))))))),
      (block ((SSetStep st_stateVer) :: (SRetNil :: []))),
      (block ((SRetErr ((String ((Ascii (true, false, false, true, false,
        true, true, false)), (String ((Ascii (false, true, true, true, false,
        true, true, false)), (String ((Ascii (false, false, false, false,
        false, true, false, false)), (String ((Ascii (true, true, false,
        true, false, true, true, false)), (String ((Ascii (true, false, true,
        false, false, true, true, false)), (String ((Ascii (true, false,
        false, true, true, true, true, false)), (String ((Ascii (true, true,
        true, false, true, true, true, false)), (String ((Ascii (true, true,
        true, true, false, true, true, false)), (String ((Ascii (false, true,
        false, false, true, true, true, false)), (String ((Ascii (false,
        false, true, false, false, true, true, false)), (String ((Ascii
        (false, false, false, false, false, true, false, false)), (String
        ((Ascii (false, true, true, false, true, false, true, false)),
        (String ((Ascii (true, false, true, false, false, true, true,
        false)), (String ((Ascii (false, true, false, false, true, true,
        true, false)), (String ((Ascii (true, true, false, false, true, true,
        true, false)), (String ((Ascii (true, false, false, true, false,
        true, true, false)), (String ((Ascii (true, true, true, true, false,
        true, true, false)), (String ((Ascii (false, true, true, true, false,
        true, true, false)), EmptyString)))))))))))))))))))))))))))))))))))),
        (String ((Ascii (false, true, false, false, true, true, true,
        false)), EmptyString)))) :: [])))) :: []))) :: (((String ((Ascii
    (true, true, false, false, true, true, true, false)), (String ((Ascii
    (false, false, true, false, true, true, true, false)), (String ((Ascii
    (true, false, false, false, false, true, true, false)), (String ((Ascii
    (false, false, true, false, true, true, true, false)), (String ((Ascii
    (true, false, true, false, false, true, true, false)), (String ((Ascii
    (false, true, true, false, true, false, true, false)), (String ((Ascii
    (true, false, true, false, false, true, true, false)), (String ((Ascii
    (false, true, false, false, true, true, true, false)),
    EmptyString)))))))))))))))),
    (block ((SIf ((CByte (Npos (XI (XI (XO (XO (XI (XI XH)))))))),
      (block ((SSetStep st_stateVers) :: (SRetNil :: []))),
      (block ((SRetErr ((String ((Ascii (true, false, false, true, false,
        true, true, false)), (String ((Ascii (false, true, true, true, false,
        true, true, false)), (String ((Ascii (false, false, false, false,
        false, true, false, false)), (String ((Ascii (true, true, false,
        true, false, true, true, false)), (String ((Ascii (true, false, true,
        false, false, true, true, false)), (String ((Ascii (true, false,
        false, true, true, true, true, false)), (String ((Ascii (true, true,
        true, false, true, true, true, false)), (String ((Ascii (true, true,
        true, true, false, true, true, false)), (String ((Ascii (false, true,
        false, false, true, true, true, false)), (String ((Ascii (false,
        false, true, false, false, true, true, false)), (String ((Ascii
        (false, false, false, false, false, true, false, false)), (String
        ((Ascii (false, true, true, false, true, false, true, false)),
        (String ((Ascii (true, false, true, false, false, true, true,
        false)), (String ((Ascii (false, true, false, false, true, true,
        true, false)), (String ((Ascii (true, true, false, false, true, true,
        true, false)), (String ((Ascii (true, false, false, true, false,
        true, true, false)), (String ((Ascii (true, true, true, true, false,
        true, true, false)), (String ((Ascii (false, true, true, true, false,
        true, true, false)), EmptyString)))))))))))))))))))))))))))))))))))),
        (String ((Ascii (true, true, false, false, true, true, true, false)),
        EmptyString)))) :: [])))) :: []))) :: (((String ((Ascii (true, true,
    false, false, true, true, true, false)), (String ((Ascii (false, false,
    true, false, true, true, true, false)), (String ((Ascii (true, false,
    false, false, false, true, true, false)), (String ((Ascii (false, false,
    true, false, true, true, true, false)), (String ((Ascii (true, false,
    true, false, false, true, true, false)), (String ((Ascii (false, true,
    true, false, true, false, true, false)), (String ((Ascii (true, false,
    true, false, false, true, true, false)), (String ((Ascii (false, true,
    false, false, true, true, true, false)), (String ((Ascii (true, true,
    false, false, true, true, true, false)), EmptyString)))))))))))))))))),
    (block ((SIf ((CByte (Npos (XI (XO (XO (XI (XO (XI XH)))))))),
      (block ((SSetStep st_stateVersi) :: (SRetNil :: []))),
      (block ((SRetErr ((String ((Ascii (true, false, false, true, false,
        true, true, false)), (String ((Ascii (false, true, true, true, false,
        true, true, false)), (String ((Ascii (false, false, false, false,
        false, true, false, false)), (String ((Ascii (true, true, false,
        true, false, true, true, false)), (String ((Ascii (true, false, true,
        false, false, true, true, false)), (String ((Ascii (true, false,
        false, true, true, true, true, false)), (String ((Ascii (true, true,
        true, false, true, true, true, false)), (String ((Ascii (true, true,
        true, true, false, true, true, false)), (String ((Ascii (false, true,
        false, false, true, true, true, false)), (String ((Ascii (false,
        false, true, false, false, true, true, false)), (String ((Ascii
        (false, false, false, false, false, true, false, false)), (String
        ((Ascii (false, true, true, false, true, false, true, false)),
        (String ((Ascii (true, false, true, false, false, true, true,
        false)), (String ((Ascii (false, true, false, false, true, true,
        true, false)), (String ((Ascii (true, true, false, false, true, true,
        true, false)), (String ((Ascii (true, false, false, true, false,
        true, true, false)), (String ((Ascii (true, true, true, true, false,
        true, true, false)), (String ((Ascii (false, true, true, true, false,
        true, true, false)), EmptyString)))))))))))))))))))))))))))))))))))),
        (String ((Ascii (true, false, false, true, false, true, true,
        false)), EmptyString)))) :: [])))) :: []))) :: (((String ((Ascii
    (true, true, false, false, true, true, true, false)), (String ((Ascii
    (false, false, true, false, true, true, true, false)), (String ((Ascii
    (true, false, false, false, false, true, true, false)), (String ((Ascii
    (false, false, true, false, true, true, true, false)), (String ((Ascii
    (true, false, true, false, false, true, true, false)), (String ((Ascii
    (false, true, true, false, true, false, true, false)), (String ((Ascii
    (true, false, true, false, false, true, true, false)), (String ((Ascii
    (false, true, false, false, true, true, true, false)), (String ((Ascii
    (true, true, false, false, true, true, true, false)), (String ((Ascii
    (true, false, false, true, false, true, true, false)),
    EmptyString)))))))))))))))))))),
    (block ((SIf ((CByte (Npos (XI (XI (XI (XI (XO (XI XH)))))))),
      (block ((SSetStep st_stateVersio) :: (SRetNil :: []))),
      (block ((SRetErr ((String ((Ascii (true, false, false, true, false,
        true, true, false)), (String ((Ascii (false, true, true, true, false,
        true, true, false)), (String ((Ascii (false, false, false, false,
        false, true, false, false)), (String ((Ascii (true, true, false,
        true, false, true, true, false)), (String ((Ascii (true, false, true,
        false, false, true, true, false)), (String ((Ascii (true, false,
        false, true, true, true, true, false)), (String ((Ascii (true, true,
        true, false, true, true, true, false)), (String ((Ascii (true, true,
        true, true, false, true, true, false)), (String ((Ascii (false, true,
        false, false, true, true, true, false)), (String ((Ascii (false,
        false, true, false, false, true, true, false)), (String ((Ascii
        (false, false, false, false, false, true, false, false)), (String
        ((Ascii (false, true, true, false, true, false, true, false)),
        (String ((Ascii (true, false, true, false, false, true, true,
        false)), (String ((Ascii (false, true, false, false, true, true,
        true, false)), (String ((Ascii (true, true, false, false, true, true,
        true, false)), (String ((Ascii (true, false, false, true, false,
        true, true, false)), (String ((Ascii (true, true, true, true, false,
        true, true, false)), (String ((Ascii (false, true, true, true, false,
        true, true, false)), EmptyString)))))))))))))))))))))))))))))))))))),
        (String ((Ascii (true, true, true, true, false, true, true, false)),
        EmptyString)))) :: [])))) :: []))) :: (((String ((Ascii (true, true,
    false, false, true, true, true, false)), (String ((Ascii (false, false,
    true, false, true, true, true, false)), (String ((Ascii (true, false,
    false, false, false, true, true, false)), (String ((Ascii (false, false,
    true, false, true, true, true, false)), (String ((Ascii (true, false,
    true, false, false, true, true, false)), (String ((Ascii (false, true,
    true, false, true, false, true, false)), (String ((Ascii (true, false,
    true, false, false, true, true, false)), (String ((Ascii (false, true,
    false, false, true, true, true, false)), (String ((Ascii (true, true,
    false, false, true, true, true, false)), (String ((Ascii (true, false,
    false, true, false, true, true, false)), (String ((Ascii (true, true,
    true, true, false, true, true, false)),
    EmptyString)))))))))))))))))))))),
    (block ((SIf ((CByte (Npos (XO (XI (XI (XI (XO (XI XH)))))))),
      (block ((SFound (KeywordEnd, Z0)) :: ((SPush
        st_stateExpectKeyword) :: ((SSetStep
        st_stateParameterOrAnnotation) :: (SRetNil :: []))))),
      (block ((SRetErr ((String ((Ascii (true, false, false, true, false,
        true, true, false)), (String ((Ascii (false, true, true, true, false,
        true, true, false)), (String ((Ascii (false, false, false, false,
        false, true, false, false)), (String ((Ascii (true, true, false,
        true, false, true, true, false)), (String ((Ascii (true, false, true,
        false, false, true, true, false)), (String ((Ascii (true, false,
        false, true, true, true, true, false)), (String ((Ascii (true, true,
        true, false, true, true, true, false)), (String ((Ascii (true, true,
        true, true, false, true, true, false)), (String ((Ascii (false, true,
        false, false, true, true, true, false)), (String ((Ascii (false,
        false, true, false, false, true, true, false)), (String ((Ascii
        (false, false, false, false, false, true, false, false)), (String
        ((Ascii (false, true, true, false, true, false, true, false)),
        (String ((Ascii (true, false, true, false, false, true, true,
        false)), (String ((Ascii (false, true, false, false, true, true,
        true, false)), (String ((Ascii (true, true, false, false, true, true,
        true, false)), (String ((Ascii (true, false, false, true, false,
        true, true, false)), (String ((Ascii (true, true, true, true, false,
        true, true, false)), (String ((Ascii (false, true, true, true, false,
        true, true, false)), EmptyString)))))))))))))))))))))))))))))))))))),
        (String ((Ascii (false, true, true, true, false, true, true, false)),
        EmptyString)))) :: [])))) :: []))) :: [])))))))))))))))))))))))))))))))))))))))))))))))))))))))))))))))))))))))))))))))))))))))))))))))))))))))))))))))))))))))))))))))))))))))))))))))))))))))))))))))))))))))))

(** val is_newline_cond : cond **)

let is_newline_cond =
  COr ((CByte (Npos (XO (XI (XO XH))))), (CByte (Npos (XI (XO (XI XH))))))

(** val is_whitespace_cond : cond **)

let is_whitespace_cond =
  COr ((CByte (Npos (XO (XO (XO (XO (XO XH))))))), (CByte (Npos (XI (XO (XO
    XH))))))

(** val initial_state : state **)

let initial_state =
  st_stateRoot

(** val okind_eqb : okind -> okind -> bool **)

let okind_eqb a b =
  match a with
  | OJSchema -> (match b with
                 | OJSchema -> true
                 | OEnum -> false)
  | OEnum -> (match b with
              | OJSchema -> false
              | OEnum -> true)

(** val missing_oracle_id : n **)

let missing_oracle_id =
  Npos (XI (XI (XI (XI (XI (XI (XO (XO (XO (XI (XO (XO (XO (XO (XI (XO (XI
    (XI (XI XH)))))))))))))))))))

(** val olen_of_table :
    ((okind * z) * olen_res) list -> okind -> z -> olen_res **)

let rec olen_of_table tbl k pos =
  match tbl with
  | [] -> OLenErr (missing_oracle_id, Z0)
  | p :: rest ->
    let (p0, r) = p in
    let (k', p') = p0 in
    if (&&) (okind_eqb k k') (Z.eqb pos p')
    then r
    else olen_of_table rest k pos

(** val the_next :
    bytes -> ((okind * z) * olen_res) list -> conf -> (lexeme option * conf)
    res **)

let the_next data tbl =
  next prog_table is_newline_cond is_whitespace_cond data (olen_of_table tbl)

(** val lex_traj :
    bytes -> ((okind * z) * olen_res) list -> nat -> conf -> (lexeme
    list * scan_end) * conf list **)

let rec lex_traj data tbl fuel cf =
  match fuel with
  | O -> (([], EndFuel), [])
  | S fuel' ->
    (match the_next data tbl cf with
     | ROk a ->
       let (o, cf') = a in
       (match o with
        | Some l ->
          let (p, tr) = lex_traj data tbl fuel' cf' in
          let (ls, e) = p in (((l :: ls), e), (cf' :: tr))
        | None -> (([], EndOk), (cf' :: [])))
     | RErr e -> (([], (EndErr e)), [])
     | RPanic p -> (([], (EndPanic p)), [])
     | RFuel -> (([], EndFuel), []))

(** val scan_case :
    bytes -> ((okind * z) * olen_res) list -> (lexeme list * scan_end) * conf
    list **)

let scan_case data tbl =
  lex_traj data tbl
    (add (mul (S (S (S (S O)))) (length data)) (S (S (S (S (S (S (S (S (S (S
      (S (S (S (S (S (S (S (S (S (S (S (S (S (S (S (S (S (S (S (S (S (S (S (S
      (S (S (S (S (S (S (S (S (S (S (S (S (S (S (S (S (S (S (S (S (S (S (S (S
      (S (S (S (S (S (S
      O)))))))))))))))))))))))))))))))))))))))))))))))))))))))))))))))))
    (init_conf initial_state)

(** val state_name : state -> string **)

let state_name st =
  match nth_error prog_table (N.to_nat st) with
  | Some p -> let (n0, _) = p in n0
  | None ->
    String ((Ascii (true, true, true, true, true, true, false, false)),
      EmptyString)

(** val digits_value : bytes -> n **)

let digits_value ds =
  fold_left (fun acc d ->
    N.add (N.mul acc (Npos (XO (XI (XO XH)))))
      (N.sub d (Npos (XO (XO (XO (XO (XI XH)))))))) ds N0

(** val is_http_response_code : bytes -> bool **)

let is_http_response_code s = match s with
| [] -> false
| c0 :: rest ->
  let digits =
    if (||) (N.eqb c0 (Npos (XI (XI (XO (XI (XO XH)))))))
         (N.eqb c0 (Npos (XI (XO (XI (XI (XO XH)))))))
    then rest
    else s
  in
  (match digits with
   | [] -> false
   | _ :: _ ->
     (&&)
       ((&&)
         ((&&)
           ((&&) (forallb is_digit digits)
             (negb (N.eqb c0 (Npos (XO (XO (XO (XO (XI XH)))))))))
           (negb (N.eqb c0 (Npos (XI (XO (XI (XI (XO XH)))))))))
         (N.leb (Npos (XO (XO (XI (XO (XO (XI XH))))))) (digits_value digits)))
       (N.leb (digits_value digits) (Npos (XI (XI (XI (XO (XI (XO (XI (XO (XO
         XH))))))))))))

(** val indexed_keywords : (n * bytes) list **)

let indexed_keywords =
  combine (map N.of_nat (seq O (length keyword_bytes))) keyword_bytes

(** val new_directive_type : bytes -> n option **)

let new_directive_type w =
  match find (fun p ->
          (&&) (negb (N.eqb (fst p) dir_HTTPResponseCode)) (beq w (snd p)))
          indexed_keywords with
  | Some p -> let (i, _) = p in Some i
  | None ->
    if is_http_response_code w then Some dir_HTTPResponseCode else None

(** val mem_N : n -> n list -> bool **)

let mem_N x l =
  existsb (N.eqb x) l

(** val is_http_request_method : n -> bool **)

let is_http_request_method k =
  mem_N k dir_http_methods

(** val is_allowed_for_root : n -> bool **)

let is_allowed_for_root k =
  mem_N k dir_root_allowed

(** val is_allowed_in : n -> n -> bool **)

let is_allowed_in parent child =
  match find (fun p -> N.eqb (fst p) parent) dir_context_table with
  | Some p -> let (_, cs) = p in mem_N child cs
  | None -> false

type icond =
| IFirstByte of n
| IEquals of n list
| IContains of n list
| IHasPrefix of n list
| IHasSuffix of n list
| ISegmentIn of n list list
| IOr of icond * icond
| IAnd of icond * icond

(** val include_checks : (icond * string) list **)

let include_checks =
  ((IHasPrefix ((Npos (XI (XI (XI (XI (XO XH)))))) :: [])), (String ((Ascii
    (true, true, false, false, false, true, true, false)), (String ((Ascii
    (true, false, false, false, false, true, true, false)), (String ((Ascii
    (false, true, true, true, false, true, true, false)), (String ((Ascii
    (false, true, true, true, false, true, true, false)), (String ((Ascii
    (true, true, true, true, false, true, true, false)), (String ((Ascii
    (false, false, true, false, true, true, true, false)), (String ((Ascii
    (false, false, false, false, false, true, false, false)), (String ((Ascii
    (false, true, true, true, false, true, true, false)), (String ((Ascii
    (true, true, true, true, false, true, true, false)), (String ((Ascii
    (false, false, true, false, true, true, true, false)), (String ((Ascii
    (false, false, false, false, false, true, false, false)), (String ((Ascii
    (true, true, false, false, true, true, true, false)), (String ((Ascii
    (false, false, true, false, true, true, true, false)), (String ((Ascii
    (true, false, false, false, false, true, true, false)), (String ((Ascii
    (false, true, false, false, true, true, true, false)), (String ((Ascii
    (false, false, true, false, true, true, true, false)), (String ((Ascii
    (false, false, false, false, false, true, false, false)), (String ((Ascii
    (true, true, true, false, true, true, true, false)), (String ((Ascii
    (true, false, false, true, false, true, true, false)), (String ((Ascii
    (false, false, true, false, true, true, true, false)), (String ((Ascii
    (false, false, false, true, false, true, true, false)), (String ((Ascii
    (false, false, false, false, false, true, false, false)), (String ((Ascii
    (false, false, false, false, false, true, true, false)), (String ((Ascii
    (true, true, true, true, false, true, false, false)), (String ((Ascii
    (false, false, false, false, false, true, true, false)),
    EmptyString))))))))))))))))))))))))))))))))))))))))))))))))))) :: (((IOr
    ((IOr ((IOr ((IOr ((IOr ((IOr ((IOr ((IEquals ((Npos (XO (XI (XI (XI (XO
    XH)))))) :: [])), (IEquals ((Npos (XO (XI (XI (XI (XO XH)))))) :: ((Npos
    (XO (XI (XI (XI (XO XH)))))) :: []))))), (IContains ((Npos (XI (XI (XI
    (XI (XO XH)))))) :: ((Npos (XO (XI (XI (XI (XO XH)))))) :: ((Npos (XI (XI
    (XI (XI (XO XH)))))) :: [])))))), (IContains ((Npos (XO (XI (XI (XI (XO
    XH)))))) :: ((Npos (XI (XI (XI (XI (XO XH)))))) :: []))))), (IContains
    ((Npos (XI (XI (XI (XI (XO XH)))))) :: ((Npos (XO (XI (XI (XI (XO
    XH)))))) :: []))))), (IContains ((Npos (XI (XI (XI (XI (XO
    XH)))))) :: ((Npos (XO (XI (XI (XI (XO XH)))))) :: ((Npos (XO (XI (XI (XI
    (XO XH)))))) :: ((Npos (XI (XI (XI (XI (XO XH)))))) :: []))))))),
    (IContains ((Npos (XO (XI (XI (XI (XO XH)))))) :: ((Npos (XO (XI (XI (XI
    (XO XH)))))) :: ((Npos (XI (XI (XI (XI (XO XH)))))) :: [])))))),
    (IContains ((Npos (XI (XI (XI (XI (XO XH)))))) :: ((Npos (XO (XI (XI (XI
    (XO XH)))))) :: ((Npos (XO (XI (XI (XI (XO XH)))))) :: [])))))), (String
    ((Ascii (true, true, false, false, false, true, true, false)), (String
    ((Ascii (true, false, false, false, false, true, true, false)), (String
    ((Ascii (false, true, true, true, false, true, true, false)), (String
    ((Ascii (false, true, true, true, false, true, true, false)), (String
    ((Ascii (true, true, true, true, false, true, true, false)), (String
    ((Ascii (false, false, true, false, true, true, true, false)), (String
    ((Ascii (false, false, false, false, false, true, false, false)), (String
    ((Ascii (true, true, false, false, false, true, true, false)), (String
    ((Ascii (true, true, true, true, false, true, true, false)), (String
    ((Ascii (false, true, true, true, false, true, true, false)), (String
    ((Ascii (false, false, true, false, true, true, true, false)), (String
    ((Ascii (true, false, false, false, false, true, true, false)), (String
    ((Ascii (true, false, false, true, false, true, true, false)), (String
    ((Ascii (false, true, true, true, false, true, true, false)), (String
    ((Ascii (false, false, false, false, false, true, false, false)), (String
    ((Ascii (false, false, false, false, false, true, true, false)), (String
    ((Ascii (false, true, true, true, false, true, false, false)), (String
    ((Ascii (false, true, true, true, false, true, false, false)), (String
    ((Ascii (false, false, false, false, false, true, true, false)), (String
    ((Ascii (false, false, false, false, false, true, false, false)), (String
    ((Ascii (true, true, true, true, false, true, true, false)), (String
    ((Ascii (false, true, false, false, true, true, true, false)), (String
    ((Ascii (false, false, false, false, false, true, false, false)), (String
    ((Ascii (false, false, false, false, false, true, true, false)), (String
    ((Ascii (false, true, true, true, false, true, false, false)), (String
    ((Ascii (false, false, false, false, false, true, true, false)),
    EmptyString))))))))))))))))))))))))))))))))))))))))))))))))))))) :: (((IContains
    ((Npos (XO (XO (XI (XI (XI (XO XH))))))) :: [])), (String ((Ascii (false,
    false, true, false, false, true, true, false)), (String ((Ascii (true,
    false, false, true, false, true, true, false)), (String ((Ascii (false,
    true, false, false, true, true, true, false)), (String ((Ascii (true,
    false, true, false, false, true, true, false)), (String ((Ascii (true,
    true, false, false, false, true, true, false)), (String ((Ascii (false,
    false, true, false, true, true, true, false)), (String ((Ascii (true,
    true, true, true, false, true, true, false)), (String ((Ascii (false,
    true, false, false, true, true, true, false)), (String ((Ascii (true,
    false, false, true, false, true, true, false)), (String ((Ascii (true,
    false, true, false, false, true, true, false)), (String ((Ascii (true,
    true, false, false, true, true, true, false)), (String ((Ascii (false,
    false, false, false, false, true, false, false)), (String ((Ascii (true,
    false, true, true, false, true, true, false)), (String ((Ascii (true,
    false, true, false, true, true, true, false)), (String ((Ascii (true,
    true, false, false, true, true, true, false)), (String ((Ascii (false,
    false, true, false, true, true, true, false)), (String ((Ascii (false,
    false, false, false, false, true, false, false)), (String ((Ascii (false,
    true, false, false, false, true, true, false)), (String ((Ascii (true,
    false, true, false, false, true, true, false)), (String ((Ascii (false,
    false, false, false, false, true, false, false)), (String ((Ascii (true,
    true, false, false, true, true, true, false)), (String ((Ascii (true,
    false, true, false, false, true, true, false)), (String ((Ascii (false,
    false, false, false, true, true, true, false)), (String ((Ascii (true,
    false, false, false, false, true, true, false)), (String ((Ascii (false,
    true, false, false, true, true, true, false)), (String ((Ascii (true,
    false, false, false, false, true, true, false)), (String ((Ascii (false,
    false, true, false, true, true, true, false)), (String ((Ascii (true,
    false, true, false, false, true, true, false)), (String ((Ascii (false,
    false, true, false, false, true, true, false)), (String ((Ascii (false,
    false, false, false, false, true, false, false)), (String ((Ascii (false,
    true, false, false, false, true, true, false)), (String ((Ascii (true,
    false, false, true, true, true, true, false)), (String ((Ascii (false,
    false, false, false, false, true, false, false)), (String ((Ascii (true,
    true, false, false, true, true, true, false)), (String ((Ascii (false,
    false, true, true, false, true, true, false)), (String ((Ascii (true,
    false, false, false, false, true, true, false)), (String ((Ascii (true,
    true, false, false, true, true, true, false)), (String ((Ascii (false,
    false, false, true, false, true, true, false)), (String ((Ascii (true,
    false, true, false, false, true, true, false)), (String ((Ascii (true,
    true, false, false, true, true, true, false)), (String ((Ascii (false,
    false, false, false, false, true, false, false)), (String ((Ascii (false,
    false, false, false, false, true, true, false)), (String ((Ascii (true,
    true, true, true, false, true, false, false)), (String ((Ascii (false,
    false, false, false, false, true, true, false)),
    EmptyString))))))))))))))))))))))))))))))))))))))))))))))))))))))))))))))))))))))))))))))))))))))))) :: []))

(** val jerr_AnnotationIsForbiddenForTheDirective : string **)

let jerr_AnnotationIsForbiddenForTheDirective =
  String ((Ascii (false, false, true, false, true, true, true, false)),
    (String ((Ascii (false, false, false, true, false, true, true, false)),
    (String ((Ascii (true, false, true, false, false, true, true, false)),
    (String ((Ascii (false, false, false, false, false, true, false, false)),
    (String ((Ascii (true, false, false, false, false, true, true, false)),
    (String ((Ascii (false, true, true, true, false, true, true, false)),
    (String ((Ascii (false, true, true, true, false, true, true, false)),
    (String ((Ascii (true, true, true, true, false, true, true, false)),
    (String ((Ascii (false, false, true, false, true, true, true, false)),
    (String ((Ascii (true, false, false, false, false, true, true, false)),
    (String ((Ascii (false, false, true, false, true, true, true, false)),
    (String ((Ascii (true, false, false, true, false, true, true, false)),
    (String ((Ascii (true, true, true, true, false, true, true, false)),
    (String ((Ascii (false, true, true, true, false, true, true, false)),
    (String ((Ascii (false, false, false, false, false, true, false, false)),
    (String ((Ascii (true, false, false, true, false, true, true, false)),
    (String ((Ascii (true, true, false, false, true, true, true, false)),
    (String ((Ascii (false, false, false, false, false, true, false, false)),
    (String ((Ascii (false, true, true, true, false, true, true, false)),
    (String ((Ascii (true, true, true, true, false, true, true, false)),
    (String ((Ascii (false, false, true, false, true, true, true, false)),
    (String ((Ascii (false, false, false, false, false, true, false, false)),
    (String ((Ascii (true, false, false, false, false, true, true, false)),
    (String ((Ascii (false, false, true, true, false, true, true, false)),
    (String ((Ascii (false, false, true, true, false, true, true, false)),
    (String ((Ascii (true, true, true, true, false, true, true, false)),
    (String ((Ascii (true, true, true, false, true, true, true, false)),
    (String ((Ascii (true, false, true, false, false, true, true, false)),
    (String ((Ascii (false, false, true, false, false, true, true, false)),
    (String ((Ascii (false, false, false, false, false, true, false, false)),
    (String ((Ascii (false, true, true, false, false, true, true, false)),
    (String ((Ascii (true, true, true, true, false, true, true, false)),
    (String ((Ascii (false, true, false, false, true, true, true, false)),
    (String ((Ascii (false, false, false, false, false, true, false, false)),
    (String ((Ascii (false, false, true, false, true, true, true, false)),
    (String ((Ascii (false, false, false, true, false, true, true, false)),
    (String ((Ascii (true, false, false, true, false, true, true, false)),
    (String ((Ascii (true, true, false, false, true, true, true, false)),
    (String ((Ascii (false, false, false, false, false, true, false, false)),
    (String ((Ascii (false, false, true, false, false, true, true, false)),
    (String ((Ascii (true, false, false, true, false, true, true, false)),
    (String ((Ascii (false, true, false, false, true, true, true, false)),
    (String ((Ascii (true, false, true, false, false, true, true, false)),
    (String ((Ascii (true, true, false, false, false, true, true, false)),
    (String ((Ascii (false, false, true, false, true, true, true, false)),
    (String ((Ascii (true, false, false, true, false, true, true, false)),
    (String ((Ascii (false, true, true, false, true, true, true, false)),
    (String ((Ascii (true, false, true, false, false, true, true, false)),
    EmptyString)))))))))))))))))))))))))))))))))))))))))))))))))))))))))))))))))))))))))))))))))))))))))))))))

(** val jerr_ContextNotClosed : string **)

let jerr_ContextNotClosed =
  String ((Ascii (false, false, true, false, true, true, true, false)),
    (String ((Ascii (false, false, false, true, false, true, true, false)),
    (String ((Ascii (true, false, false, true, false, true, true, false)),
    (String ((Ascii (true, true, false, false, true, true, true, false)),
    (String ((Ascii (false, false, false, false, false, true, false, false)),
    (String ((Ascii (true, true, true, true, false, true, true, false)),
    (String ((Ascii (false, false, false, false, true, true, true, false)),
    (String ((Ascii (true, false, true, false, false, true, true, false)),
    (String ((Ascii (false, true, true, true, false, true, true, false)),
    (String ((Ascii (true, false, false, true, false, true, true, false)),
    (String ((Ascii (false, true, true, true, false, true, true, false)),
    (String ((Ascii (true, true, true, false, false, true, true, false)),
    (String ((Ascii (false, false, false, false, false, true, false, false)),
    (String ((Ascii (false, false, false, false, true, true, true, false)),
    (String ((Ascii (true, false, false, false, false, true, true, false)),
    (String ((Ascii (false, true, false, false, true, true, true, false)),
    (String ((Ascii (true, false, true, false, false, true, true, false)),
    (String ((Ascii (false, true, true, true, false, true, true, false)),
    (String ((Ascii (false, false, true, false, true, true, true, false)),
    (String ((Ascii (false, false, false, true, false, true, true, false)),
    (String ((Ascii (true, false, true, false, false, true, true, false)),
    (String ((Ascii (true, true, false, false, true, true, true, false)),
    (String ((Ascii (true, false, false, true, false, true, true, false)),
    (String ((Ascii (true, true, false, false, true, true, true, false)),
    (String ((Ascii (false, false, false, false, false, true, false, false)),
    (String ((Ascii (true, false, false, true, false, true, true, false)),
    (String ((Ascii (true, true, false, false, true, true, true, false)),
    (String ((Ascii (false, false, false, false, false, true, false, false)),
    (String ((Ascii (false, true, true, true, false, true, true, false)),
    (String ((Ascii (true, true, true, true, false, true, true, false)),
    (String ((Ascii (false, false, true, false, true, true, true, false)),
    (String ((Ascii (false, false, false, false, false, true, false, false)),
    (String ((Ascii (true, true, false, false, false, true, true, false)),
    (String ((Ascii (false, false, true, true, false, true, true, false)),
    (String ((Ascii (true, true, true, true, false, true, true, false)),
    (String ((Ascii (true, true, false, false, true, true, true, false)),
    (String ((Ascii (true, false, true, false, false, true, true, false)),
    (String ((Ascii (false, false, true, false, false, true, true, false)),
    (String ((Ascii (false, false, true, true, false, true, false, false)),
    (String ((Ascii (false, false, false, false, false, true, false, false)),
    (String ((Ascii (false, false, true, true, false, true, true, false)),
    (String ((Ascii (true, false, true, false, false, true, true, false)),
    (String ((Ascii (true, false, false, false, false, true, true, false)),
    (String ((Ascii (false, true, false, false, true, true, true, false)),
    (String ((Ascii (false, true, true, true, false, true, true, false)),
    (String ((Ascii (false, false, false, false, false, true, false, false)),
    (String ((Ascii (true, false, true, true, false, true, true, false)),
    (String ((Ascii (true, true, true, true, false, true, true, false)),
    (String ((Ascii (false, true, false, false, true, true, true, false)),
    (String ((Ascii (true, false, true, false, false, true, true, false)),
    (String ((Ascii (false, false, false, false, false, true, false, false)),
    (String ((Ascii (true, false, false, false, false, true, true, false)),
    (String ((Ascii (false, true, false, false, false, true, true, false)),
    (String ((Ascii (true, true, true, true, false, true, true, false)),
    (String ((Ascii (true, false, true, false, true, true, true, false)),
    (String ((Ascii (false, false, true, false, true, true, true, false)),
    (String ((Ascii (false, false, false, false, false, true, false, false)),
    (String ((Ascii (false, false, true, false, true, true, true, false)),
    (String ((Ascii (false, false, false, true, false, true, true, false)),
    (String ((Ascii (true, false, true, false, false, true, true, false)),
    (String ((Ascii (false, false, false, false, false, true, false, false)),
    (String ((Ascii (true, false, true, false, false, true, true, false)),
    (String ((Ascii (false, false, false, true, true, true, true, false)),
    (String ((Ascii (false, false, false, false, true, true, true, false)),
    (String ((Ascii (false, false, true, true, false, true, true, false)),
    (String ((Ascii (true, false, false, true, false, true, true, false)),
    (String ((Ascii (true, true, false, false, false, true, true, false)),
    (String ((Ascii (true, false, false, true, false, true, true, false)),
    (String ((Ascii (false, false, true, false, true, true, true, false)),
    (String ((Ascii (false, false, false, false, false, true, false, false)),
    (String ((Ascii (false, false, true, false, false, true, true, false)),
    (String ((Ascii (true, false, false, true, false, true, true, false)),
    (String ((Ascii (false, true, false, false, true, true, true, false)),
    (String ((Ascii (true, false, true, false, false, true, true, false)),
    (String ((Ascii (true, true, false, false, false, true, true, false)),
    (String ((Ascii (true, false, false, true, false, true, true, false)),
    (String ((Ascii (false, false, true, false, true, true, true, false)),
    (String ((Ascii (false, true, true, false, true, true, true, false)),
    (String ((Ascii (true, false, true, false, false, true, true, false)),
    (String ((Ascii (false, false, false, false, false, true, false, false)),
    (String ((Ascii (false, true, false, false, false, true, true, false)),
    (String ((Ascii (true, true, true, true, false, true, true, false)),
    (String ((Ascii (true, false, true, false, true, true, true, false)),
    (String ((Ascii (false, true, true, true, false, true, true, false)),
    (String ((Ascii (false, false, true, false, false, true, true, false)),
    (String ((Ascii (true, false, false, false, false, true, true, false)),
    (String ((Ascii (false, true, false, false, true, true, true, false)),
    (String ((Ascii (true, false, false, true, false, true, true, false)),
    (String ((Ascii (true, false, true, false, false, true, true, false)),
    (String ((Ascii (true, true, false, false, true, true, true, false)),
    (String ((Ascii (false, false, false, false, false, true, false, false)),
    (String ((Ascii (false, false, false, true, false, true, true, false)),
    (String ((Ascii (true, false, true, false, false, true, true, false)),
    (String ((Ascii (false, true, false, false, true, true, true, false)),
    (String ((Ascii (true, false, true, false, false, true, true, false)),
    (String ((Ascii (false, true, false, true, true, true, false, false)),
    (String ((Ascii (false, false, false, false, false, true, false, false)),
    (String ((Ascii (false, false, false, true, false, true, true, false)),
    (String ((Ascii (false, false, true, false, true, true, true, false)),
    (String ((Ascii (false, false, true, false, true, true, true, false)),
    (String ((Ascii (false, false, false, false, true, true, true, false)),
    (String ((Ascii (true, true, false, false, true, true, true, false)),
    (String ((Ascii (false, true, false, true, true, true, false, false)),
    (String ((Ascii (true, true, true, true, false, true, false, false)),
    (String ((Ascii (true, true, true, true, false, true, false, false)),
    (String ((Ascii (false, true, false, true, false, true, true, false)),
    (String ((Ascii (true, true, false, false, true, true, true, false)),
    (String ((Ascii (true, false, false, true, false, true, true, false)),
    (String ((Ascii (true, true, true, false, false, true, true, false)),
    (String ((Ascii (false, false, false, true, false, true, true, false)),
    (String ((Ascii (false, false, true, false, true, true, true, false)),
    (String ((Ascii (false, true, true, true, false, true, false, false)),
    (String ((Ascii (true, false, false, true, false, true, true, false)),
    (String ((Ascii (true, true, true, true, false, true, true, false)),
    (String ((Ascii (true, true, true, true, false, true, false, false)),
    (String ((Ascii (false, false, true, false, false, true, true, false)),
    (String ((Ascii (true, true, true, true, false, true, true, false)),
    (String ((Ascii (true, true, false, false, false, true, true, false)),
    (String ((Ascii (true, true, false, false, true, true, true, false)),
    (String ((Ascii (true, true, true, true, false, true, false, false)),
    (String ((Ascii (false, true, false, true, false, true, true, false)),
    (String ((Ascii (true, true, false, false, true, true, true, false)),
    (String ((Ascii (true, false, false, true, false, true, true, false)),
    (String ((Ascii (true, true, true, false, false, true, true, false)),
    (String ((Ascii (false, false, false, true, false, true, true, false)),
    (String ((Ascii (false, false, true, false, true, true, true, false)),
    (String ((Ascii (true, false, true, true, false, true, false, false)),
    (String ((Ascii (true, false, false, false, false, true, true, false)),
    (String ((Ascii (false, false, false, false, true, true, true, false)),
    (String ((Ascii (true, false, false, true, false, true, true, false)),
    (String ((Ascii (true, false, true, true, false, true, false, false)),
    (String ((Ascii (false, false, false, false, true, true, false, false)),
    (String ((Ascii (true, false, true, true, false, true, false, false)),
    (String ((Ascii (true, true, false, false, true, true, false, false)),
    (String ((Ascii (true, true, false, false, false, true, false, false)),
    (String ((Ascii (false, true, false, false, false, true, true, false)),
    (String ((Ascii (true, true, true, true, false, true, true, false)),
    (String ((Ascii (true, false, true, false, true, true, true, false)),
    (String ((Ascii (false, true, true, true, false, true, true, false)),
    (String ((Ascii (false, false, true, false, false, true, true, false)),
    (String ((Ascii (true, false, false, false, false, true, true, false)),
    (String ((Ascii (false, true, false, false, true, true, true, false)),
    (String ((Ascii (true, false, false, true, false, true, true, false)),
    (String ((Ascii (true, false, true, false, false, true, true, false)),
    (String ((Ascii (true, true, false, false, true, true, true, false)),
    (String ((Ascii (true, false, true, true, false, true, false, false)),
    (String ((Ascii (true, true, true, true, false, true, true, false)),
    (String ((Ascii (false, true, true, false, false, true, true, false)),
    (String ((Ascii (true, false, true, true, false, true, false, false)),
    (String ((Ascii (false, false, true, false, true, true, true, false)),
    (String ((Ascii (false, false, false, true, false, true, true, false)),
    (String ((Ascii (true, false, true, false, false, true, true, false)),
    (String ((Ascii (true, false, true, true, false, true, false, false)),
    (String ((Ascii (false, true, false, false, false, true, true, false)),
    (String ((Ascii (true, true, true, true, false, true, true, false)),
    (String ((Ascii (false, false, true, false, false, true, true, false)),
    (String ((Ascii (true, false, false, true, true, true, true, false)),
    (String ((Ascii (true, false, true, true, false, true, false, false)),
    (String ((Ascii (true, true, true, true, false, true, true, false)),
    (String ((Ascii (false, true, true, false, false, true, true, false)),
    (String ((Ascii (true, false, true, true, false, true, false, false)),
    (String ((Ascii (false, false, true, false, true, true, true, false)),
    (String ((Ascii (false, false, false, true, false, true, true, false)),
    (String ((Ascii (true, false, true, false, false, true, true, false)),
    (String ((Ascii (true, false, true, true, false, true, false, false)),
    (String ((Ascii (false, false, true, false, false, true, true, false)),
    (String ((Ascii (true, false, false, true, false, true, true, false)),
    (String ((Ascii (false, true, false, false, true, true, true, false)),
    (String ((Ascii (true, false, true, false, false, true, true, false)),
    (String ((Ascii (true, true, false, false, false, true, true, false)),
    (String ((Ascii (false, false, true, false, true, true, true, false)),
    (String ((Ascii (true, false, false, true, false, true, true, false)),
    (String ((Ascii (false, true, true, false, true, true, true, false)),
    (String ((Ascii (true, false, true, false, false, true, true, false)),
    EmptyString)))))))))))))))))))))))))))))))))))))))))))))))))))))))))))))))))))))))))))))))))))))))))))))))))))))))))))))))))))))))))))))))))))))))))))))))))))))))))))))))))))))))))))))))))))))))))))))))))))))))))))))))))))))))))))))))))))))))))))))))))))))))))))))))))))))))))))))))))))))))))))))))))))))))))))))))))))))))))))))))))))))))))))))))))))))))))))

(** val jerr_DuplicateNames : string **)

let jerr_DuplicateNames =
  String ((Ascii (false, false, true, false, true, true, true, false)),
    (String ((Ascii (false, false, false, true, false, true, true, false)),
    (String ((Ascii (true, false, true, false, false, true, true, false)),
    (String ((Ascii (false, false, false, false, false, true, false, false)),
    (String ((Ascii (false, true, true, true, false, true, true, false)),
    (String ((Ascii (true, false, false, false, false, true, true, false)),
    (String ((Ascii (true, false, true, true, false, true, true, false)),
    (String ((Ascii (true, false, true, false, false, true, true, false)),
    (String ((Ascii (false, false, false, false, false, true, false, false)),
    (String ((Ascii (true, false, true, false, false, true, false, false)),
    (String ((Ascii (true, false, false, false, true, true, true, false)),
    (String ((Ascii (false, false, false, false, false, true, false, false)),
    (String ((Ascii (false, false, false, true, false, true, true, false)),
    (String ((Ascii (true, false, false, false, false, true, true, false)),
    (String ((Ascii (true, true, false, false, true, true, true, false)),
    (String ((Ascii (false, false, false, false, false, true, false, false)),
    (String ((Ascii (true, false, false, false, false, true, true, false)),
    (String ((Ascii (false, false, true, true, false, true, true, false)),
    (String ((Ascii (false, true, false, false, true, true, true, false)),
    (String ((Ascii (true, false, true, false, false, true, true, false)),
    (String ((Ascii (true, false, false, false, false, true, true, false)),
    (String ((Ascii (false, false, true, false, false, true, true, false)),
    (String ((Ascii (true, false, false, true, true, true, true, false)),
    (String ((Ascii (false, false, false, false, false, true, false, false)),
    (String ((Ascii (false, true, false, false, false, true, true, false)),
    (String ((Ascii (true, false, true, false, false, true, true, false)),
    (String ((Ascii (true, false, true, false, false, true, true, false)),
    (String ((Ascii (false, true, true, true, false, true, true, false)),
    (String ((Ascii (false, false, false, false, false, true, false, false)),
    (String ((Ascii (false, false, true, false, false, true, true, false)),
    (String ((Ascii (true, false, true, false, false, true, true, false)),
    (String ((Ascii (true, true, false, false, false, true, true, false)),
    (String ((Ascii (false, false, true, true, false, true, true, false)),
    (String ((Ascii (true, false, false, false, false, true, true, false)),
    (String ((Ascii (false, true, false, false, true, true, true, false)),
    (String ((Ascii (true, false, true, false, false, true, true, false)),
    (String ((Ascii (false, false, true, false, false, true, true, false)),
    (String ((Ascii (false, false, false, false, false, true, false, false)),
    (String ((Ascii (false, true, false, false, false, true, true, false)),
    (String ((Ascii (true, false, true, false, false, true, true, false)),
    (String ((Ascii (false, true, true, false, false, true, true, false)),
    (String ((Ascii (true, true, true, true, false, true, true, false)),
    (String ((Ascii (false, true, false, false, true, true, true, false)),
    (String ((Ascii (true, false, true, false, false, true, true, false)),
    EmptyString)))))))))))))))))))))))))))))))))))))))))))))))))))))))))))))))))))))))))))))))))))))))

(** val jerr_IncludeDirectiveErr : string **)

let jerr_IncludeDirectiveErr =
  String ((Ascii (false, false, true, false, true, true, true, false)),
    (String ((Ascii (false, false, false, true, false, true, true, false)),
    (String ((Ascii (true, false, true, false, false, true, true, false)),
    (String ((Ascii (false, false, false, false, false, true, false, false)),
    (String ((Ascii (false, false, true, false, false, true, true, false)),
    (String ((Ascii (true, false, false, true, false, true, true, false)),
    (String ((Ascii (false, true, false, false, true, true, true, false)),
    (String ((Ascii (true, false, true, false, false, true, true, false)),
    (String ((Ascii (true, true, false, false, false, true, true, false)),
    (String ((Ascii (false, false, true, false, true, true, true, false)),
    (String ((Ascii (true, false, false, true, false, true, true, false)),
    (String ((Ascii (false, true, true, false, true, true, true, false)),
    (String ((Ascii (true, false, true, false, false, true, true, false)),
    (String ((Ascii (false, false, false, false, false, true, false, false)),
    (String ((Ascii (true, false, false, true, false, true, true, false)),
    (String ((Ascii (true, true, false, false, true, true, true, false)),
    (String ((Ascii (false, false, false, false, false, true, false, false)),
    (String ((Ascii (false, true, true, true, false, true, true, false)),
    (String ((Ascii (true, true, true, true, false, true, true, false)),
    (String ((Ascii (false, false, true, false, true, true, true, false)),
    (String ((Ascii (false, false, false, false, false, true, false, false)),
    (String ((Ascii (true, false, false, false, false, true, true, false)),
    (String ((Ascii (false, false, true, true, false, true, true, false)),
    (String ((Ascii (false, false, true, true, false, true, true, false)),
    (String ((Ascii (true, true, true, true, false, true, true, false)),
    (String ((Ascii (true, true, true, false, true, true, true, false)),
    (String ((Ascii (true, false, true, false, false, true, true, false)),
    (String ((Ascii (false, false, true, false, false, true, true, false)),
    (String ((Ascii (false, false, false, false, false, true, false, false)),
    (String ((Ascii (true, false, false, true, false, true, true, false)),
    (String ((Ascii (false, true, true, true, false, true, true, false)),
    (String ((Ascii (false, false, false, false, false, true, false, false)),
    (String ((Ascii (true, false, false, true, false, true, true, false)),
    (String ((Ascii (false, true, true, true, false, true, true, false)),
    (String ((Ascii (true, true, false, false, false, true, true, false)),
    (String ((Ascii (false, false, true, true, false, true, true, false)),
    (String ((Ascii (true, false, true, false, true, true, true, false)),
    (String ((Ascii (false, false, true, false, false, true, true, false)),
    (String ((Ascii (true, false, true, false, false, true, true, false)),
    (String ((Ascii (false, false, true, false, false, true, true, false)),
    (String ((Ascii (false, false, false, false, false, true, false, false)),
    (String ((Ascii (false, true, true, false, false, true, true, false)),
    (String ((Ascii (true, false, false, true, false, true, true, false)),
    (String ((Ascii (false, false, true, true, false, true, true, false)),
    (String ((Ascii (true, false, true, false, false, true, true, false)),
    (String ((Ascii (true, true, false, false, true, true, true, false)),
    (String ((Ascii (false, true, false, true, true, true, false, false)),
    EmptyString)))))))))))))))))))))))))))))))))))))))))))))))))))))))))))))))))))))))))))))))))))))))))))))

(** val jerr_IncorrectDirectiveContext : string **)

let jerr_IncorrectDirectiveContext =
  String ((Ascii (true, false, false, true, false, true, true, false)),
    (String ((Ascii (false, true, true, true, false, true, true, false)),
    (String ((Ascii (true, true, false, false, false, true, true, false)),
    (String ((Ascii (true, true, true, true, false, true, true, false)),
    (String ((Ascii (false, true, false, false, true, true, true, false)),
    (String ((Ascii (false, true, false, false, true, true, true, false)),
    (String ((Ascii (true, false, true, false, false, true, true, false)),
    (String ((Ascii (true, true, false, false, false, true, true, false)),
    (String ((Ascii (false, false, true, false, true, true, true, false)),
    (String ((Ascii (false, false, false, false, false, true, false, false)),
    (String ((Ascii (true, true, false, false, false, true, true, false)),
    (String ((Ascii (true, true, true, true, false, true, true, false)),
    (String ((Ascii (false, true, true, true, false, true, true, false)),
    (String ((Ascii (false, false, true, false, true, true, true, false)),
    (String ((Ascii (true, false, true, false, false, true, true, false)),
    (String ((Ascii (false, false, false, true, true, true, true, false)),
    (String ((Ascii (false, false, true, false, true, true, true, false)),
    (String ((Ascii (false, false, false, false, false, true, false, false)),
    (String ((Ascii (false, true, true, false, false, true, true, false)),
    (String ((Ascii (true, true, true, true, false, true, true, false)),
    (String ((Ascii (false, true, false, false, true, true, true, false)),
    (String ((Ascii (false, false, false, false, false, true, false, false)),
    (String ((Ascii (false, false, true, false, true, true, true, false)),
    (String ((Ascii (false, false, false, true, false, true, true, false)),
    (String ((Ascii (true, false, true, false, false, true, true, false)),
    (String ((Ascii (false, false, false, false, false, true, false, false)),
    (String ((Ascii (false, false, true, false, false, true, true, false)),
    (String ((Ascii (true, false, false, true, false, true, true, false)),
    (String ((Ascii (false, true, false, false, true, true, true, false)),
    (String ((Ascii (true, false, true, false, false, true, true, false)),
    (String ((Ascii (true, true, false, false, false, true, true, false)),
    (String ((Ascii (false, false, true, false, true, true, true, false)),
    (String ((Ascii (true, false, false, true, false, true, true, false)),
    (String ((Ascii (false, true, true, false, true, true, true, false)),
    (String ((Ascii (true, false, true, false, false, true, true, false)),
    EmptyString)))))))))))))))))))))))))))))))))))))))))))))))))))))))))))))))))))))

(** val jerr_IncorrectParameter : string **)

let jerr_IncorrectParameter =
  String ((Ascii (true, false, false, true, false, true, true, false)),
    (String ((Ascii (false, true, true, true, false, true, true, false)),
    (String ((Ascii (true, true, false, false, false, true, true, false)),
    (String ((Ascii (true, true, true, true, false, true, true, false)),
    (String ((Ascii (false, true, false, false, true, true, true, false)),
    (String ((Ascii (false, true, false, false, true, true, true, false)),
    (String ((Ascii (true, false, true, false, false, true, true, false)),
    (String ((Ascii (true, true, false, false, false, true, true, false)),
    (String ((Ascii (false, false, true, false, true, true, true, false)),
    (String ((Ascii (false, false, false, false, false, true, false, false)),
    (String ((Ascii (false, false, false, false, true, true, true, false)),
    (String ((Ascii (true, false, false, false, false, true, true, false)),
    (String ((Ascii (false, true, false, false, true, true, true, false)),
    (String ((Ascii (true, false, false, false, false, true, true, false)),
    (String ((Ascii (true, false, true, true, false, true, true, false)),
    (String ((Ascii (true, false, true, false, false, true, true, false)),
    (String ((Ascii (false, false, true, false, true, true, true, false)),
    (String ((Ascii (true, false, true, false, false, true, true, false)),
    (String ((Ascii (false, true, false, false, true, true, true, false)),
    EmptyString)))))))))))))))))))))))))))))))))))))

(** val jerr_MacroIsEmpty : string **)

let jerr_MacroIsEmpty =
  String ((Ascii (false, false, true, false, true, true, true, false)),
    (String ((Ascii (false, false, false, true, false, true, true, false)),
    (String ((Ascii (true, false, true, false, false, true, true, false)),
    (String ((Ascii (false, false, false, false, false, true, false, false)),
    (String ((Ascii (true, false, true, true, false, true, true, false)),
    (String ((Ascii (true, false, false, false, false, true, true, false)),
    (String ((Ascii (true, true, false, false, false, true, true, false)),
    (String ((Ascii (false, true, false, false, true, true, true, false)),
    (String ((Ascii (true, true, true, true, false, true, true, false)),
    (String ((Ascii (true, true, false, false, true, true, true, false)),
    (String ((Ascii (false, false, false, false, false, true, false, false)),
    (String ((Ascii (true, true, false, false, false, true, true, false)),
    (String ((Ascii (true, false, false, false, false, true, true, false)),
    (String ((Ascii (false, true, true, true, false, true, true, false)),
    (String ((Ascii (false, true, true, true, false, true, true, false)),
    (String ((Ascii (true, true, true, true, false, true, true, false)),
    (String ((Ascii (false, false, true, false, true, true, true, false)),
    (String ((Ascii (false, false, false, false, false, true, false, false)),
    (String ((Ascii (false, true, false, false, false, true, true, false)),
    (String ((Ascii (true, false, true, false, false, true, true, false)),
    (String ((Ascii (false, false, false, false, false, true, false, false)),
    (String ((Ascii (true, false, true, false, false, true, true, false)),
    (String ((Ascii (true, false, true, true, false, true, true, false)),
    (String ((Ascii (false, false, false, false, true, true, true, false)),
    (String ((Ascii (false, false, true, false, true, true, true, false)),
    (String ((Ascii (true, false, false, true, true, true, true, false)),
    (String ((Ascii (false, false, true, true, false, true, false, false)),
    (String ((Ascii (false, false, false, false, false, true, false, false)),
    (String ((Ascii (false, false, true, true, false, true, true, false)),
    (String ((Ascii (true, false, true, false, false, true, true, false)),
    (String ((Ascii (true, false, false, false, false, true, true, false)),
    (String ((Ascii (false, true, false, false, true, true, true, false)),
    (String ((Ascii (false, true, true, true, false, true, true, false)),
    (String ((Ascii (false, false, false, false, false, true, false, false)),
    (String ((Ascii (true, false, true, true, false, true, true, false)),
    (String ((Ascii (true, true, true, true, false, true, true, false)),
    (String ((Ascii (false, true, false, false, true, true, true, false)),
    (String ((Ascii (true, false, true, false, false, true, true, false)),
    (String ((Ascii (false, false, false, false, false, true, false, false)),
    (String ((Ascii (true, false, false, false, false, true, true, false)),
    (String ((Ascii (false, true, false, false, false, true, true, false)),
    (String ((Ascii (true, true, true, true, false, true, true, false)),
    (String ((Ascii (true, false, true, false, true, true, true, false)),
    (String ((Ascii (false, false, true, false, true, true, true, false)),
    (String ((Ascii (false, false, false, false, false, true, false, false)),
    (String ((Ascii (false, false, true, false, true, true, true, false)),
    (String ((Ascii (false, false, false, true, false, true, true, false)),
    (String ((Ascii (true, false, true, false, false, true, true, false)),
    (String ((Ascii (false, false, false, false, false, true, false, false)),
    (String ((Ascii (true, false, true, true, false, false, true, false)),
    (String ((Ascii (true, false, false, false, false, false, true, false)),
    (String ((Ascii (true, true, false, false, false, false, true, false)),
    (String ((Ascii (false, true, false, false, true, false, true, false)),
    (String ((Ascii (true, true, true, true, false, false, true, false)),
    (String ((Ascii (false, false, false, false, false, true, false, false)),
    (String ((Ascii (false, false, true, false, false, true, true, false)),
    (String ((Ascii (true, false, false, true, false, true, true, false)),
    (String ((Ascii (false, true, false, false, true, true, true, false)),
    (String ((Ascii (true, false, true, false, false, true, true, false)),
    (String ((Ascii (true, true, false, false, false, true, true, false)),
    (String ((Ascii (false, false, true, false, true, true, true, false)),
    (String ((Ascii (true, false, false, true, false, true, true, false)),
    (String ((Ascii (false, true, true, false, true, true, true, false)),
    (String ((Ascii (true, false, true, false, false, true, true, false)),
    (String ((Ascii (false, false, false, false, false, true, false, false)),
    (String ((Ascii (false, false, false, true, false, true, true, false)),
    (String ((Ascii (true, false, true, false, false, true, true, false)),
    (String ((Ascii (false, true, false, false, true, true, true, false)),
    (String ((Ascii (true, false, true, false, false, true, true, false)),
    (String ((Ascii (false, true, false, true, true, true, false, false)),
    (String ((Ascii (false, false, false, false, false, true, false, false)),
    (String ((Ascii (false, false, false, true, false, true, true, false)),
    (String ((Ascii (false, false, true, false, true, true, true, false)),
    (String ((Ascii (false, false, true, false, true, true, true, false)),
    (String ((Ascii (false, false, false, false, true, true, true, false)),
    (String ((Ascii (true, true, false, false, true, true, true, false)),
    (String ((Ascii (false, true, false, true, true, true, false, false)),
    (String ((Ascii (true, true, true, true, false, true, false, false)),
    (String ((Ascii (true, true, true, true, false, true, false, false)),
    (String ((Ascii (false, true, false, true, false, true, true, false)),
    (String ((Ascii (true, true, false, false, true, true, true, false)),
    (String ((Ascii (true, false, false, true, false, true, true, false)),
    (String ((Ascii (true, true, true, false, false, true, true, false)),
    (String ((Ascii (false, false, false, true, false, true, true, false)),
    (String ((Ascii (false, false, true, false, true, true, true, false)),
    (String ((Ascii (false, true, true, true, false, true, false, false)),
    (String ((Ascii (true, false, false, true, false, true, true, false)),
    (String ((Ascii (true, true, true, true, false, true, true, false)),
    (String ((Ascii (true, true, true, true, false, true, false, false)),
    (String ((Ascii (false, false, true, false, false, true, true, false)),
    (String ((Ascii (true, true, true, true, false, true, true, false)),
    (String ((Ascii (true, true, false, false, false, true, true, false)),
    (String ((Ascii (true, true, false, false, true, true, true, false)),
    (String ((Ascii (true, true, true, true, false, true, false, false)),
    (String ((Ascii (false, true, false, true, false, true, true, false)),
    (String ((Ascii (true, true, false, false, true, true, true, false)),
    (String ((Ascii (true, false, false, true, false, true, true, false)),
    (String ((Ascii (true, true, true, false, false, true, true, false)),
    (String ((Ascii (false, false, false, true, false, true, true, false)),
    (String ((Ascii (false, false, true, false, true, true, true, false)),
    (String ((Ascii (true, false, true, true, false, true, false, false)),
    (String ((Ascii (true, false, false, false, false, true, true, false)),
    (String ((Ascii (false, false, false, false, true, true, true, false)),
    (String ((Ascii (true, false, false, true, false, true, true, false)),
    (String ((Ascii (true, false, true, true, false, true, false, false)),
    (String ((Ascii (false, false, false, false, true, true, false, false)),
    (String ((Ascii (true, false, true, true, false, true, false, false)),
    (String ((Ascii (true, true, false, false, true, true, false, false)),
    (String ((Ascii (true, true, false, false, false, true, false, false)),
    (String ((Ascii (false, false, true, false, false, true, true, false)),
    (String ((Ascii (true, false, false, true, false, true, true, false)),
    (String ((Ascii (false, true, false, false, true, true, true, false)),
    (String ((Ascii (true, false, true, false, false, true, true, false)),
    (String ((Ascii (true, true, false, false, false, true, true, false)),
    (String ((Ascii (false, false, true, false, true, true, true, false)),
    (String ((Ascii (true, false, false, true, false, true, true, false)),
    (String ((Ascii (false, true, true, false, true, true, true, false)),
    (String ((Ascii (true, false, true, false, false, true, true, false)),
    (String ((Ascii (true, false, true, true, false, true, false, false)),
    (String ((Ascii (true, false, true, true, false, true, true, false)),
    (String ((Ascii (true, false, false, false, false, true, true, false)),
    (String ((Ascii (true, true, false, false, false, true, true, false)),
    (String ((Ascii (false, true, false, false, true, true, true, false)),
    (String ((Ascii (true, true, true, true, false, true, true, false)),
    EmptyString)))))))))))))))))))))))))))))))))))))))))))))))))))))))))))))))))))))))))))))))))))))))))))))))))))))))))))))))))))))))))))))))))))))))))))))))))))))))))))))))))))))))))))))))))))))))))))))))))))))))))))))))))))))))))))))))))))))))))))))))))))))))

(** val jerr_MacroNotFound : string **)

let jerr_MacroNotFound =
  String ((Ascii (true, false, true, true, false, true, true, false)),
    (String ((Ascii (true, false, false, false, false, true, true, false)),
    (String ((Ascii (true, true, false, false, false, true, true, false)),
    (String ((Ascii (false, true, false, false, true, true, true, false)),
    (String ((Ascii (true, true, true, true, false, true, true, false)),
    (String ((Ascii (false, false, false, false, false, true, false, false)),
    (String ((Ascii (false, true, true, true, false, true, true, false)),
    (String ((Ascii (true, true, true, true, false, true, true, false)),
    (String ((Ascii (false, false, true, false, true, true, true, false)),
    (String ((Ascii (false, false, false, false, false, true, false, false)),
    (String ((Ascii (false, true, true, false, false, true, true, false)),
    (String ((Ascii (true, true, true, true, false, true, true, false)),
    (String ((Ascii (true, false, true, false, true, true, true, false)),
    (String ((Ascii (false, true, true, true, false, true, true, false)),
    (String ((Ascii (false, false, true, false, false, true, true, false)),
    EmptyString)))))))))))))))))))))))))))))

(** val jerr_ParametersIsAlreadyDefined : string **)

let jerr_ParametersIsAlreadyDefined =
  String ((Ascii (false, false, true, false, true, true, true, false)),
    (String ((Ascii (false, false, false, true, false, true, true, false)),
    (String ((Ascii (true, false, true, false, false, true, true, false)),
    (String ((Ascii (false, false, false, false, false, true, false, false)),
    (String ((Ascii (false, false, false, false, true, true, true, false)),
    (String ((Ascii (true, false, false, false, false, true, true, false)),
    (String ((Ascii (false, true, false, false, true, true, true, false)),
    (String ((Ascii (true, false, false, false, false, true, true, false)),
    (String ((Ascii (true, false, true, true, false, true, true, false)),
    (String ((Ascii (true, false, true, false, false, true, true, false)),
    (String ((Ascii (false, false, true, false, true, true, true, false)),
    (String ((Ascii (true, false, true, false, false, true, true, false)),
    (String ((Ascii (false, true, false, false, true, true, true, false)),
    (String ((Ascii (false, false, false, false, false, true, false, false)),
    (String ((Ascii (true, false, true, false, false, true, false, false)),
    (String ((Ascii (true, false, false, false, true, true, true, false)),
    (String ((Ascii (false, false, false, false, false, true, false, false)),
    (String ((Ascii (true, false, false, true, false, true, true, false)),
    (String ((Ascii (true, true, false, false, true, true, true, false)),
    (String ((Ascii (false, false, false, false, false, true, false, false)),
    (String ((Ascii (true, false, false, false, false, true, true, false)),
    (String ((Ascii (false, false, true, true, false, true, true, false)),
    (String ((Ascii (false, true, false, false, true, true, true, false)),
    (String ((Ascii (true, false, true, false, false, true, true, false)),
    (String ((Ascii (true, false, false, false, false, true, true, false)),
    (String ((Ascii (false, false, true, false, false, true, true, false)),
    (String ((Ascii (true, false, false, true, true, true, true, false)),
    (String ((Ascii (false, false, false, false, false, true, false, false)),
    (String ((Ascii (false, false, true, false, false, true, true, false)),
    (String ((Ascii (true, false, true, false, false, true, true, false)),
    (String ((Ascii (false, true, true, false, false, true, true, false)),
    (String ((Ascii (true, false, false, true, false, true, true, false)),
    (String ((Ascii (false, true, true, true, false, true, true, false)),
    (String ((Ascii (true, false, true, false, false, true, true, false)),
    (String ((Ascii (false, false, true, false, false, true, true, false)),
    (String ((Ascii (false, false, false, false, false, true, false, false)),
    (String ((Ascii (false, true, true, false, false, true, true, false)),
    (String ((Ascii (true, true, true, true, false, true, true, false)),
    (String ((Ascii (false, true, false, false, true, true, true, false)),
    (String ((Ascii (false, false, false, false, false, true, false, false)),
    (String ((Ascii (false, false, true, false, true, true, true, false)),
    (String ((Ascii (false, false, false, true, false, true, true, false)),
    (String ((Ascii (true, false, true, false, false, true, true, false)),
    (String ((Ascii (false, false, false, false, false, true, false, false)),
    (String ((Ascii (false, false, true, false, false, true, true, false)),
    (String ((Ascii (true, false, false, true, false, true, true, false)),
    (String ((Ascii (false, true, false, false, true, true, true, false)),
    (String ((Ascii (true, false, true, false, false, true, true, false)),
    (String ((Ascii (true, true, false, false, false, true, true, false)),
    (String ((Ascii (false, false, true, false, true, true, true, false)),
    (String ((Ascii (true, false, false, true, false, true, true, false)),
    (String ((Ascii (false, true, true, false, true, true, true, false)),
    (String ((Ascii (true, false, true, false, false, true, true, false)),
    EmptyString)))))))))))))))))))))))))))))))))))))))))))))))))))))))))))))))))))))))))))))))))))))))))))))))))))))))))

(** val jerr_RecursionIsProhibited : string **)

let jerr_RecursionIsProhibited =
  String ((Ascii (false, true, true, false, false, true, true, false)),
    (String ((Ascii (true, false, false, true, false, true, true, false)),
    (String ((Ascii (false, false, true, true, false, true, true, false)),
    (String ((Ascii (true, false, true, false, false, true, true, false)),
    (String ((Ascii (false, false, false, false, false, true, false, false)),
    (String ((Ascii (false, false, true, false, false, true, true, false)),
    (String ((Ascii (true, false, true, false, false, true, true, false)),
    (String ((Ascii (false, false, false, false, true, true, true, false)),
    (String ((Ascii (true, false, true, false, false, true, true, false)),
    (String ((Ascii (false, true, true, true, false, true, true, false)),
    (String ((Ascii (false, false, true, false, false, true, true, false)),
    (String ((Ascii (true, false, true, false, false, true, true, false)),
    (String ((Ascii (false, true, true, true, false, true, true, false)),
    (String ((Ascii (true, true, false, false, false, true, true, false)),
    (String ((Ascii (true, false, false, true, true, true, true, false)),
    (String ((Ascii (false, false, false, false, false, true, false, false)),
    (String ((Ascii (false, true, false, false, true, true, true, false)),
    (String ((Ascii (true, false, true, false, false, true, true, false)),
    (String ((Ascii (true, true, false, false, false, true, true, false)),
    (String ((Ascii (true, false, true, false, true, true, true, false)),
    (String ((Ascii (false, true, false, false, true, true, true, false)),
    (String ((Ascii (true, true, false, false, true, true, true, false)),
    (String ((Ascii (true, false, false, true, false, true, true, false)),
    (String ((Ascii (true, true, true, true, false, true, true, false)),
    (String ((Ascii (false, true, true, true, false, true, true, false)),
    (String ((Ascii (false, false, false, false, false, true, false, false)),
    (String ((Ascii (true, false, false, true, false, true, true, false)),
    (String ((Ascii (true, true, false, false, true, true, true, false)),
    (String ((Ascii (false, false, false, false, false, true, false, false)),
    (String ((Ascii (false, false, true, false, false, true, true, false)),
    (String ((Ascii (true, false, true, false, false, true, true, false)),
    (String ((Ascii (false, false, true, false, true, true, true, false)),
    (String ((Ascii (true, false, true, false, false, true, true, false)),
    (String ((Ascii (true, true, false, false, false, true, true, false)),
    (String ((Ascii (false, false, true, false, true, true, true, false)),
    (String ((Ascii (true, false, true, false, false, true, true, false)),
    (String ((Ascii (false, false, true, false, false, true, true, false)),
    (String ((Ascii (false, false, true, true, false, true, false, false)),
    (String ((Ascii (false, false, false, false, false, true, false, false)),
    (String ((Ascii (false, false, true, true, false, true, true, false)),
    (String ((Ascii (true, false, true, false, false, true, true, false)),
    (String ((Ascii (true, false, false, false, false, true, true, false)),
    (String ((Ascii (false, true, false, false, true, true, true, false)),
    (String ((Ascii (false, true, true, true, false, true, true, false)),
    (String ((Ascii (false, false, false, false, false, true, false, false)),
    (String ((Ascii (true, false, true, true, false, true, true, false)),
    (String ((Ascii (true, true, true, true, false, true, true, false)),
    (String ((Ascii (false, true, false, false, true, true, true, false)),
    (String ((Ascii (true, false, true, false, false, true, true, false)),
    (String ((Ascii (false, false, false, false, false, true, false, false)),
    (String ((Ascii (true, false, false, false, false, true, true, false)),
    (String ((Ascii (false, true, false, false, false, true, true, false)),
    (String ((Ascii (true, true, true, true, false, true, true, false)),
    (String ((Ascii (true, false, true, false, true, true, true, false)),
    (String ((Ascii (false, false, true, false, true, true, true, false)),
    (String ((Ascii (false, false, false, false, false, true, false, false)),
    (String ((Ascii (false, false, true, false, true, true, true, false)),
    (String ((Ascii (false, false, false, true, false, true, true, false)),
    (String ((Ascii (true, false, true, false, false, true, true, false)),
    (String ((Ascii (false, false, false, false, false, true, false, false)),
    (String ((Ascii (true, false, false, true, false, false, true, false)),
    (String ((Ascii (false, true, true, true, false, false, true, false)),
    (String ((Ascii (true, true, false, false, false, false, true, false)),
    (String ((Ascii (false, false, true, true, false, false, true, false)),
    (String ((Ascii (true, false, true, false, true, false, true, false)),
    (String ((Ascii (false, false, true, false, false, false, true, false)),
    (String ((Ascii (true, false, true, false, false, false, true, false)),
    (String ((Ascii (false, false, false, false, false, true, false, false)),
    (String ((Ascii (false, false, true, false, false, true, true, false)),
    (String ((Ascii (true, false, false, true, false, true, true, false)),
    (String ((Ascii (false, true, false, false, true, true, true, false)),
    (String ((Ascii (true, false, true, false, false, true, true, false)),
    (String ((Ascii (true, true, false, false, false, true, true, false)),
    (String ((Ascii (false, false, true, false, true, true, true, false)),
    (String ((Ascii (true, false, false, true, false, true, true, false)),
    (String ((Ascii (false, true, true, false, true, true, true, false)),
    (String ((Ascii (true, false, true, false, false, true, true, false)),
    (String ((Ascii (false, false, false, false, false, true, false, false)),
    (String ((Ascii (false, false, false, true, false, true, true, false)),
    (String ((Ascii (true, false, true, false, false, true, true, false)),
    (String ((Ascii (false, true, false, false, true, true, true, false)),
    (String ((Ascii (true, false, true, false, false, true, true, false)),
    (String ((Ascii (false, true, false, true, true, true, false, false)),
    (String ((Ascii (false, false, false, false, false, true, false, false)),
    (String ((Ascii (false, false, false, true, false, true, true, false)),
    (String ((Ascii (false, false, true, false, true, true, true, false)),
    (String ((Ascii (false, false, true, false, true, true, true, false)),
    (String ((Ascii (false, false, false, false, true, true, true, false)),
    (String ((Ascii (true, true, false, false, true, true, true, false)),
    (String ((Ascii (false, true, false, true, true, true, false, false)),
    (String ((Ascii (true, true, true, true, false, true, false, false)),
    (String ((Ascii (true, true, true, true, false, true, false, false)),
    (String ((Ascii (false, true, false, true, false, true, true, false)),
    (String ((Ascii (true, true, false, false, true, true, true, false)),
    (String ((Ascii (true, false, false, true, false, true, true, false)),
    (String ((Ascii (true, true, true, false, false, true, true, false)),
    (String ((Ascii (false, false, false, true, false, true, true, false)),
    (String ((Ascii (false, false, true, false, true, true, true, false)),
    (String ((Ascii (false, true, true, true, false, true, false, false)),
    (String ((Ascii (true, false, false, true, false, true, true, false)),
    (String ((Ascii (true, true, true, true, false, true, true, false)),
    (String ((Ascii (true, true, true, true, false, true, false, false)),
    (String ((Ascii (false, false, true, false, false, true, true, false)),
    (String ((Ascii (true, true, true, true, false, true, true, false)),
    (String ((Ascii (true, true, false, false, false, true, true, false)),
    (String ((Ascii (true, true, false, false, true, true, true, false)),
    (String ((Ascii (true, true, true, true, false, true, false, false)),
    (String ((Ascii (false, true, false, true, false, true, true, false)),
    (String ((Ascii (true, true, false, false, true, true, true, false)),
    (String ((Ascii (true, false, false, true, false, true, true, false)),
    (String ((Ascii (true, true, true, false, false, true, true, false)),
    (String ((Ascii (false, false, false, true, false, true, true, false)),
    (String ((Ascii (false, false, true, false, true, true, true, false)),
    (String ((Ascii (true, false, true, true, false, true, false, false)),
    (String ((Ascii (true, false, false, false, false, true, true, false)),
    (String ((Ascii (false, false, false, false, true, true, true, false)),
    (String ((Ascii (true, false, false, true, false, true, true, false)),
    (String ((Ascii (true, false, true, true, false, true, false, false)),
    (String ((Ascii (false, false, false, false, true, true, false, false)),
    (String ((Ascii (true, false, true, true, false, true, false, false)),
    (String ((Ascii (true, true, false, false, true, true, false, false)),
    (String ((Ascii (true, true, false, false, false, true, false, false)),
    (String ((Ascii (false, false, true, false, false, true, true, false)),
    (String ((Ascii (true, false, false, true, false, true, true, false)),
    (String ((Ascii (false, true, false, false, true, true, true, false)),
    (String ((Ascii (true, false, true, false, false, true, true, false)),
    (String ((Ascii (true, true, false, false, false, true, true, false)),
    (String ((Ascii (false, false, true, false, true, true, true, false)),
    (String ((Ascii (true, false, false, true, false, true, true, false)),
    (String ((Ascii (false, true, true, false, true, true, true, false)),
    (String ((Ascii (true, false, true, false, false, true, true, false)),
    (String ((Ascii (true, false, true, true, false, true, false, false)),
    (String ((Ascii (true, false, false, true, false, true, true, false)),
    (String ((Ascii (false, true, true, true, false, true, true, false)),
    (String ((Ascii (true, true, false, false, false, true, true, false)),
    (String ((Ascii (false, false, true, true, false, true, true, false)),
    (String ((Ascii (true, false, true, false, true, true, true, false)),
    (String ((Ascii (false, false, true, false, false, true, true, false)),
    (String ((Ascii (true, false, true, false, false, true, true, false)),
    EmptyString)))))))))))))))))))))))))))))))))))))))))))))))))))))))))))))))))))))))))))))))))))))))))))))))))))))))))))))))))))))))))))))))))))))))))))))))))))))))))))))))))))))))))))))))))))))))))))))))))))))))))))))))))))))))))))))))))))))))))))))))))))))))))))))))))))))))))))))))))))))

(** val jerr_RequiredParameterNotSpecified : string **)

let jerr_RequiredParameterNotSpecified =
  String ((Ascii (false, true, false, false, true, true, true, false)),
    (String ((Ascii (true, false, true, false, false, true, true, false)),
    (String ((Ascii (true, false, false, false, true, true, true, false)),
    (String ((Ascii (true, false, true, false, true, true, true, false)),
    (String ((Ascii (true, false, false, true, false, true, true, false)),
    (String ((Ascii (false, true, false, false, true, true, true, false)),
    (String ((Ascii (true, false, true, false, false, true, true, false)),
    (String ((Ascii (false, false, true, false, false, true, true, false)),
    (String ((Ascii (false, false, false, false, false, true, false, false)),
    (String ((Ascii (false, false, false, false, true, true, true, false)),
    (String ((Ascii (true, false, false, false, false, true, true, false)),
    (String ((Ascii (false, true, false, false, true, true, true, false)),
    (String ((Ascii (true, false, false, false, false, true, true, false)),
    (String ((Ascii (true, false, true, true, false, true, true, false)),
    (String ((Ascii (true, false, true, false, false, true, true, false)),
    (String ((Ascii (false, false, true, false, true, true, true, false)),
    (String ((Ascii (true, false, true, false, false, true, true, false)),
    (String ((Ascii (false, true, false, false, true, true, true, false)),
    (String ((Ascii (false, false, false, true, false, true, false, false)),
    (String ((Ascii (true, true, false, false, true, true, true, false)),
    (String ((Ascii (true, false, false, true, false, true, false, false)),
    (String ((Ascii (false, false, false, false, false, true, false, false)),
    (String ((Ascii (false, true, true, true, false, true, true, false)),
    (String ((Ascii (true, true, true, true, false, true, true, false)),
    (String ((Ascii (false, false, true, false, true, true, true, false)),
    (String ((Ascii (false, false, false, false, false, true, false, false)),
    (String ((Ascii (true, true, false, false, true, true, true, false)),
    (String ((Ascii (false, false, false, false, true, true, true, false)),
    (String ((Ascii (true, false, true, false, false, true, true, false)),
    (String ((Ascii (true, true, false, false, false, true, true, false)),
    (String ((Ascii (true, false, false, true, false, true, true, false)),
    (String ((Ascii (false, true, true, false, false, true, true, false)),
    (String ((Ascii (true, false, false, true, false, true, true, false)),
    (String ((Ascii (true, false, true, false, false, true, true, false)),
    (String ((Ascii (false, false, true, false, false, true, true, false)),
    EmptyString)))))))))))))))))))))))))))))))))))))))))))))))))))))))))))))))))))))

(** val jerr_ThereIsNoExplicitContextForClosure : string **)

let jerr_ThereIsNoExplicitContextForClosure =
  String ((Ascii (false, true, true, true, false, true, true, false)),
    (String ((Ascii (true, true, true, true, false, true, true, false)),
    (String ((Ascii (false, false, true, false, true, true, true, false)),
    (String ((Ascii (false, false, false, true, false, true, true, false)),
    (String ((Ascii (true, false, false, true, false, true, true, false)),
    (String ((Ascii (false, true, true, true, false, true, true, false)),
    (String ((Ascii (true, true, true, false, false, true, true, false)),
    (String ((Ascii (false, false, false, false, false, true, false, false)),
    (String ((Ascii (false, false, true, false, true, true, true, false)),
    (String ((Ascii (true, true, true, true, false, true, true, false)),
    (String ((Ascii (false, false, false, false, false, true, false, false)),
    (String ((Ascii (true, true, false, false, false, true, true, false)),
    (String ((Ascii (false, false, true, true, false, true, true, false)),
    (String ((Ascii (true, true, true, true, false, true, true, false)),
    (String ((Ascii (true, true, false, false, true, true, true, false)),
    (String ((Ascii (true, false, true, false, false, true, true, false)),
    (String ((Ascii (false, false, false, false, false, true, false, false)),
    (String ((Ascii (true, true, true, false, true, true, true, false)),
    (String ((Ascii (true, false, false, true, false, true, true, false)),
    (String ((Ascii (false, false, true, false, true, true, true, false)),
    (String ((Ascii (false, false, false, true, false, true, true, false)),
    (String ((Ascii (false, false, false, false, false, true, false, false)),
    (String ((Ascii (false, false, true, false, true, true, true, false)),
    (String ((Ascii (false, false, false, true, false, true, true, false)),
    (String ((Ascii (true, false, false, true, false, true, true, false)),
    (String ((Ascii (true, true, false, false, true, true, true, false)),
    (String ((Ascii (false, false, false, false, false, true, false, false)),
    (String ((Ascii (true, true, false, false, false, true, true, false)),
    (String ((Ascii (false, false, true, true, false, true, true, false)),
    (String ((Ascii (true, true, true, true, false, true, true, false)),
    (String ((Ascii (true, true, false, false, true, true, true, false)),
    (String ((Ascii (true, false, false, true, false, true, true, false)),
    (String ((Ascii (false, true, true, true, false, true, true, false)),
    (String ((Ascii (true, true, true, false, false, true, true, false)),
    (String ((Ascii (false, false, false, false, false, true, false, false)),
    (String ((Ascii (false, false, false, false, true, true, true, false)),
    (String ((Ascii (true, false, false, false, false, true, true, false)),
    (String ((Ascii (false, true, false, false, true, true, true, false)),
    (String ((Ascii (true, false, true, false, false, true, true, false)),
    (String ((Ascii (false, true, true, true, false, true, true, false)),
    (String ((Ascii (false, false, true, false, true, true, true, false)),
    (String ((Ascii (false, false, false, true, false, true, true, false)),
    (String ((Ascii (true, false, true, false, false, true, true, false)),
    (String ((Ascii (true, true, false, false, true, true, true, false)),
    (String ((Ascii (true, false, false, true, false, true, true, false)),
    (String ((Ascii (true, true, false, false, true, true, true, false)),
    (String ((Ascii (false, false, true, true, false, true, false, false)),
    (String ((Ascii (false, false, false, false, false, true, false, false)),
    (String ((Ascii (false, false, true, true, false, true, true, false)),
    (String ((Ascii (true, false, true, false, false, true, true, false)),
    (String ((Ascii (true, false, false, false, false, true, true, false)),
    (String ((Ascii (false, true, false, false, true, true, true, false)),
    (String ((Ascii (false, true, true, true, false, true, true, false)),
    (String ((Ascii (false, false, false, false, false, true, false, false)),
    (String ((Ascii (true, false, true, true, false, true, true, false)),
    (String ((Ascii (true, true, true, true, false, true, true, false)),
    (String ((Ascii (false, true, false, false, true, true, true, false)),
    (String ((Ascii (true, false, true, false, false, true, true, false)),
    (String ((Ascii (false, false, false, false, false, true, false, false)),
    (String ((Ascii (true, false, false, false, false, true, true, false)),
    (String ((Ascii (false, true, false, false, false, true, true, false)),
    (String ((Ascii (true, true, true, true, false, true, true, false)),
    (String ((Ascii (true, false, true, false, true, true, true, false)),
    (String ((Ascii (false, false, true, false, true, true, true, false)),
    (String ((Ascii (false, false, false, false, false, true, false, false)),
    (String ((Ascii (false, false, true, false, true, true, true, false)),
    (String ((Ascii (false, false, false, true, false, true, true, false)),
    (String ((Ascii (true, false, true, false, false, true, true, false)),
    (String ((Ascii (false, false, false, false, false, true, false, false)),
    (String ((Ascii (true, false, true, false, false, true, true, false)),
    (String ((Ascii (false, false, false, true, true, true, true, false)),
    (String ((Ascii (false, false, false, false, true, true, true, false)),
    (String ((Ascii (false, false, true, true, false, true, true, false)),
    (String ((Ascii (true, false, false, true, false, true, true, false)),
    (String ((Ascii (true, true, false, false, false, true, true, false)),
    (String ((Ascii (true, false, false, true, false, true, true, false)),
    (String ((Ascii (false, false, true, false, true, true, true, false)),
    (String ((Ascii (false, false, false, false, false, true, false, false)),
    (String ((Ascii (false, false, true, false, false, true, true, false)),
    (String ((Ascii (true, false, false, true, false, true, true, false)),
    (String ((Ascii (false, true, false, false, true, true, true, false)),
    (String ((Ascii (true, false, true, false, false, true, true, false)),
    (String ((Ascii (true, true, false, false, false, true, true, false)),
    (String ((Ascii (true, false, false, true, false, true, true, false)),
    (String ((Ascii (false, false, true, false, true, true, true, false)),
    (String ((Ascii (false, true, true, false, true, true, true, false)),
    (String ((Ascii (true, false, true, false, false, true, true, false)),
    (String ((Ascii (false, false, false, false, false, true, false, false)),
    (String ((Ascii (false, true, false, false, false, true, true, false)),
    (String ((Ascii (true, true, true, true, false, true, true, false)),
    (String ((Ascii (true, false, true, false, true, true, true, false)),
    (String ((Ascii (false, true, true, true, false, true, true, false)),
    (String ((Ascii (false, false, true, false, false, true, true, false)),
    (String ((Ascii (true, false, false, false, false, true, true, false)),
    (String ((Ascii (false, true, false, false, true, true, true, false)),
    (String ((Ascii (true, false, false, true, false, true, true, false)),
    (String ((Ascii (true, false, true, false, false, true, true, false)),
    (String ((Ascii (true, true, false, false, true, true, true, false)),
    (String ((Ascii (false, false, false, false, false, true, false, false)),
    (String ((Ascii (false, false, false, true, false, true, true, false)),
    (String ((Ascii (true, false, true, false, false, true, true, false)),
    (String ((Ascii (false, true, false, false, true, true, true, false)),
    (String ((Ascii (true, false, true, false, false, true, true, false)),
    (String ((Ascii (false, true, false, true, true, true, false, false)),
    (String ((Ascii (false, false, false, false, false, true, false, false)),
    (String ((Ascii (false, false, false, true, false, true, true, false)),
    (String ((Ascii (false, false, true, false, true, true, true, false)),
    (String ((Ascii (false, false, true, false, true, true, true, false)),
    (String ((Ascii (false, false, false, false, true, true, true, false)),
    (String ((Ascii (true, true, false, false, true, true, true, false)),
    (String ((Ascii (false, true, false, true, true, true, false, false)),
    (String ((Ascii (true, true, true, true, false, true, false, false)),
    (String ((Ascii (true, true, true, true, false, true, false, false)),
    (String ((Ascii (false, true, false, true, false, true, true, false)),
    (String ((Ascii (true, true, false, false, true, true, true, false)),
    (String ((Ascii (true, false, false, true, false, true, true, false)),
    (String ((Ascii (true, true, true, false, false, true, true, false)),
    (String ((Ascii (false, false, false, true, false, true, true, false)),
    (String ((Ascii (false, false, true, false, true, true, true, false)),
    (String ((Ascii (false, true, true, true, false, true, false, false)),
    (String ((Ascii (true, false, false, true, false, true, true, false)),
    (String ((Ascii (true, true, true, true, false, true, true, false)),
    (String ((Ascii (true, true, true, true, false, true, false, false)),
    (String ((Ascii (false, false, true, false, false, true, true, false)),
    (String ((Ascii (true, true, true, true, false, true, true, false)),
    (String ((Ascii (true, true, false, false, false, true, true, false)),
    (String ((Ascii (true, true, false, false, true, true, true, false)),
    (String ((Ascii (true, true, true, true, false, true, false, false)),
    (String ((Ascii (false, true, false, true, false, true, true, false)),
    (String ((Ascii (true, true, false, false, true, true, true, false)),
    (String ((Ascii (true, false, false, true, false, true, true, false)),
    (String ((Ascii (true, true, true, false, false, true, true, false)),
    (String ((Ascii (false, false, false, true, false, true, true, false)),
    (String ((Ascii (false, false, true, false, true, true, true, false)),
    (String ((Ascii (true, false, true, true, false, true, false, false)),
    (String ((Ascii (true, false, false, false, false, true, true, false)),
    (String ((Ascii (false, false, false, false, true, true, true, false)),
    (String ((Ascii (true, false, false, true, false, true, true, false)),
    (String ((Ascii (true, false, true, true, false, true, false, false)),
    (String ((Ascii (false, false, false, false, true, true, false, false)),
    (String ((Ascii (true, false, true, true, false, true, false, false)),
    (String ((Ascii (true, true, false, false, true, true, false, false)),
    (String ((Ascii (true, true, false, false, false, true, false, false)),
    (String ((Ascii (false, true, false, false, false, true, true, false)),
    (String ((Ascii (true, true, true, true, false, true, true, false)),
    (String ((Ascii (true, false, true, false, true, true, true, false)),
    (String ((Ascii (false, true, true, true, false, true, true, false)),
    (String ((Ascii (false, false, true, false, false, true, true, false)),
    (String ((Ascii (true, false, false, false, false, true, true, false)),
    (String ((Ascii (false, true, false, false, true, true, true, false)),
    (String ((Ascii (true, false, false, true, false, true, true, false)),
    (String ((Ascii (true, false, true, false, false, true, true, false)),
    (String ((Ascii (true, true, false, false, true, true, true, false)),
    (String ((Ascii (true, false, true, true, false, true, false, false)),
    (String ((Ascii (true, true, true, true, false, true, true, false)),
    (String ((Ascii (false, true, true, false, false, true, true, false)),
    (String ((Ascii (true, false, true, true, false, true, false, false)),
    (String ((Ascii (false, false, true, false, true, true, true, false)),
    (String ((Ascii (false, false, false, true, false, true, true, false)),
    (String ((Ascii (true, false, true, false, false, true, true, false)),
    (String ((Ascii (true, false, true, true, false, true, false, false)),
    (String ((Ascii (false, true, false, false, false, true, true, false)),
    (String ((Ascii (true, true, true, true, false, true, true, false)),
    (String ((Ascii (false, false, true, false, false, true, true, false)),
    (String ((Ascii (true, false, false, true, true, true, true, false)),
    (String ((Ascii (true, false, true, true, false, true, false, false)),
    (String ((Ascii (true, true, true, true, false, true, true, false)),
    (String ((Ascii (false, true, true, false, false, true, true, false)),
    (String ((Ascii (true, false, true, true, false, true, false, false)),
    (String ((Ascii (false, false, true, false, true, true, true, false)),
    (String ((Ascii (false, false, false, true, false, true, true, false)),
    (String ((Ascii (true, false, true, false, false, true, true, false)),
    (String ((Ascii (true, false, true, true, false, true, false, false)),
    (String ((Ascii (false, false, true, false, false, true, true, false)),
    (String ((Ascii (true, false, false, true, false, true, true, false)),
    (String ((Ascii (false, true, false, false, true, true, true, false)),
    (String ((Ascii (true, false, true, false, false, true, true, false)),
    (String ((Ascii (true, true, false, false, false, true, true, false)),
    (String ((Ascii (false, false, true, false, true, true, true, false)),
    (String ((Ascii (true, false, false, true, false, true, true, false)),
    (String ((Ascii (false, true, true, false, true, true, true, false)),
    (String ((Ascii (true, false, true, false, false, true, true, false)),
    EmptyString)))))))))))))))))))))))))))))))))))))))))))))))))))))))))))))))))))))))))))))))))))))))))))))))))))))))))))))))))))))))))))))))))))))))))))))))))))))))))))))))))))))))))))))))))))))))))))))))))))))))))))))))))))))))))))))))))))))))))))))))))))))))))))))))))))))))))))))))))))))))))))))))))))))))))))))))))))))))))))))))))))))))))))))))))))))))))))))))))))))))))))

(** val jerr_UnknownDirective : string **)

let jerr_UnknownDirective =
  String ((Ascii (true, false, true, false, true, true, true, false)),
    (String ((Ascii (false, true, true, true, false, true, true, false)),
    (String ((Ascii (true, true, false, true, false, true, true, false)),
    (String ((Ascii (false, true, true, true, false, true, true, false)),
    (String ((Ascii (true, true, true, true, false, true, true, false)),
    (String ((Ascii (true, true, true, false, true, true, true, false)),
    (String ((Ascii (false, true, true, true, false, true, true, false)),
    (String ((Ascii (false, false, false, false, false, true, false, false)),
    (String ((Ascii (false, false, true, false, false, true, true, false)),
    (String ((Ascii (true, false, false, true, false, true, true, false)),
    (String ((Ascii (false, true, false, false, true, true, true, false)),
    (String ((Ascii (true, false, true, false, false, true, true, false)),
    (String ((Ascii (true, true, false, false, false, true, true, false)),
    (String ((Ascii (false, false, true, false, true, true, true, false)),
    (String ((Ascii (true, false, false, true, false, true, true, false)),
    (String ((Ascii (false, true, true, false, true, true, true, false)),
    (String ((Ascii (true, false, true, false, false, true, true, false)),
    EmptyString)))))))))))))))))))))))))))))))))

type pkey =
| KPath
| KSchemaNotation
| KType
| KName
| KFormat
| KQueryExample
| KVersion
| KTitle
| KProtocolName
| KMethodName
| KTagName
| KOperationId

(** val pkey_eqb : pkey -> pkey -> bool **)

let pkey_eqb a b =
  match a with
  | KPath -> (match b with
              | KPath -> true
              | _ -> false)
  | KSchemaNotation -> (match b with
                        | KSchemaNotation -> true
                        | _ -> false)
  | KType -> (match b with
              | KType -> true
              | _ -> false)
  | KName -> (match b with
              | KName -> true
              | _ -> false)
  | KFormat -> (match b with
                | KFormat -> true
                | _ -> false)
  | KQueryExample -> (match b with
                      | KQueryExample -> true
                      | _ -> false)
  | KVersion -> (match b with
                 | KVersion -> true
                 | _ -> false)
  | KTitle -> (match b with
               | KTitle -> true
               | _ -> false)
  | KProtocolName -> (match b with
                      | KProtocolName -> true
                      | _ -> false)
  | KMethodName -> (match b with
                    | KMethodName -> true
                    | _ -> false)
  | KTagName -> (match b with
                 | KTagName -> true
                 | _ -> false)
  | KOperationId -> (match b with
                     | KOperationId -> true
                     | _ -> false)

(** val pkey_name : pkey -> string **)

let pkey_name = function
| KPath ->
  String ((Ascii (false, false, false, false, true, false, true, false)),
    (String ((Ascii (true, false, false, false, false, true, true, false)),
    (String ((Ascii (false, false, true, false, true, true, true, false)),
    (String ((Ascii (false, false, false, true, false, true, true, false)),
    EmptyString)))))))
| KSchemaNotation ->
  String ((Ascii (true, true, false, false, true, false, true, false)),
    (String ((Ascii (true, true, false, false, false, true, true, false)),
    (String ((Ascii (false, false, false, true, false, true, true, false)),
    (String ((Ascii (true, false, true, false, false, true, true, false)),
    (String ((Ascii (true, false, true, true, false, true, true, false)),
    (String ((Ascii (true, false, false, false, false, true, true, false)),
    (String ((Ascii (false, true, true, true, false, false, true, false)),
    (String ((Ascii (true, true, true, true, false, true, true, false)),
    (String ((Ascii (false, false, true, false, true, true, true, false)),
    (String ((Ascii (true, false, false, false, false, true, true, false)),
    (String ((Ascii (false, false, true, false, true, true, true, false)),
    (String ((Ascii (true, false, false, true, false, true, true, false)),
    (String ((Ascii (true, true, true, true, false, true, true, false)),
    (String ((Ascii (false, true, true, true, false, true, true, false)),
    EmptyString)))))))))))))))))))))))))))
| KType ->
  String ((Ascii (false, false, true, false, true, false, true, false)),
    (String ((Ascii (true, false, false, true, true, true, true, false)),
    (String ((Ascii (false, false, false, false, true, true, true, false)),
    (String ((Ascii (true, false, true, false, false, true, true, false)),
    EmptyString)))))))
| KName ->
  String ((Ascii (false, true, true, true, false, false, true, false)),
    (String ((Ascii (true, false, false, false, false, true, true, false)),
    (String ((Ascii (true, false, true, true, false, true, true, false)),
    (String ((Ascii (true, false, true, false, false, true, true, false)),
    EmptyString)))))))
| KFormat ->
  String ((Ascii (false, true, true, false, false, false, true, false)),
    (String ((Ascii (true, true, true, true, false, true, true, false)),
    (String ((Ascii (false, true, false, false, true, true, true, false)),
    (String ((Ascii (true, false, true, true, false, true, true, false)),
    (String ((Ascii (true, false, false, false, false, true, true, false)),
    (String ((Ascii (false, false, true, false, true, true, true, false)),
    EmptyString)))))))))))
| KQueryExample ->
  String ((Ascii (true, false, false, false, true, false, true, false)),
    (String ((Ascii (true, false, true, false, true, true, true, false)),
    (String ((Ascii (true, false, true, false, false, true, true, false)),
    (String ((Ascii (false, true, false, false, true, true, true, false)),
    (String ((Ascii (true, false, false, true, true, true, true, false)),
    (String ((Ascii (true, false, true, false, false, false, true, false)),
    (String ((Ascii (false, false, false, true, true, true, true, false)),
    (String ((Ascii (true, false, false, false, false, true, true, false)),
    (String ((Ascii (true, false, true, true, false, true, true, false)),
    (String ((Ascii (false, false, false, false, true, true, true, false)),
    (String ((Ascii (false, false, true, true, false, true, true, false)),
    (String ((Ascii (true, false, true, false, false, true, true, false)),
    EmptyString)))))))))))))))))))))))
| KVersion ->
  String ((Ascii (false, true, true, false, true, false, true, false)),
    (String ((Ascii (true, false, true, false, false, true, true, false)),
    (String ((Ascii (false, true, false, false, true, true, true, false)),
    (String ((Ascii (true, true, false, false, true, true, true, false)),
    (String ((Ascii (true, false, false, true, false, true, true, false)),
    (String ((Ascii (true, true, true, true, false, true, true, false)),
    (String ((Ascii (false, true, true, true, false, true, true, false)),
    EmptyString)))))))))))))
| KTitle ->
  String ((Ascii (false, false, true, false, true, false, true, false)),
    (String ((Ascii (true, false, false, true, false, true, true, false)),
    (String ((Ascii (false, false, true, false, true, true, true, false)),
    (String ((Ascii (false, false, true, true, false, true, true, false)),
    (String ((Ascii (true, false, true, false, false, true, true, false)),
    EmptyString)))))))))
| KProtocolName ->
  String ((Ascii (false, false, false, false, true, false, true, false)),
    (String ((Ascii (false, true, false, false, true, true, true, false)),
    (String ((Ascii (true, true, true, true, false, true, true, false)),
    (String ((Ascii (false, false, true, false, true, true, true, false)),
    (String ((Ascii (true, true, true, true, false, true, true, false)),
    (String ((Ascii (true, true, false, false, false, true, true, false)),
    (String ((Ascii (true, true, true, true, false, true, true, false)),
    (String ((Ascii (false, false, true, true, false, true, true, false)),
    (String ((Ascii (false, true, true, true, false, false, true, false)),
    (String ((Ascii (true, false, false, false, false, true, true, false)),
    (String ((Ascii (true, false, true, true, false, true, true, false)),
    (String ((Ascii (true, false, true, false, false, true, true, false)),
    EmptyString)))))))))))))))))))))))
| KMethodName ->
  String ((Ascii (true, false, true, true, false, false, true, false)),
    (String ((Ascii (true, false, true, false, false, true, true, false)),
    (String ((Ascii (false, false, true, false, true, true, true, false)),
    (String ((Ascii (false, false, false, true, false, true, true, false)),
    (String ((Ascii (true, true, true, true, false, true, true, false)),
    (String ((Ascii (false, false, true, false, false, true, true, false)),
    (String ((Ascii (false, true, true, true, false, false, true, false)),
    (String ((Ascii (true, false, false, false, false, true, true, false)),
    (String ((Ascii (true, false, true, true, false, true, true, false)),
    (String ((Ascii (true, false, true, false, false, true, true, false)),
    EmptyString)))))))))))))))))))
| KTagName ->
  String ((Ascii (false, false, true, false, true, false, true, false)),
    (String ((Ascii (true, false, false, false, false, true, true, false)),
    (String ((Ascii (true, true, true, false, false, true, true, false)),
    (String ((Ascii (false, true, true, true, false, false, true, false)),
    (String ((Ascii (true, false, false, false, false, true, true, false)),
    (String ((Ascii (true, false, true, true, false, true, true, false)),
    (String ((Ascii (true, false, true, false, false, true, true, false)),
    EmptyString)))))))))))))
| KOperationId ->
  String ((Ascii (true, true, true, true, false, false, true, false)),
    (String ((Ascii (false, false, false, false, true, true, true, false)),
    (String ((Ascii (true, false, true, false, false, true, true, false)),
    (String ((Ascii (false, true, false, false, true, true, true, false)),
    (String ((Ascii (true, false, false, false, false, true, true, false)),
    (String ((Ascii (false, false, true, false, true, true, true, false)),
    (String ((Ascii (true, false, false, true, false, true, true, false)),
    (String ((Ascii (true, true, true, true, false, true, true, false)),
    (String ((Ascii (false, true, true, true, false, true, true, false)),
    (String ((Ascii (true, false, false, true, false, false, true, false)),
    (String ((Ascii (false, false, true, false, false, true, true, false)),
    EmptyString)))))))))))))))))))))

type coords = { co_file : n; co_begin : z; co_end : z }

type trace = (n * z) list

type dir = { d_kind : n; d_keyword : bytes; d_kw : coords;
             d_named : (pkey * bytes) list; d_unnamed : bytes list;
             d_annot : bytes; d_body : coords option; d_explicit : bool;
             d_trace : trace; d_children : dir list }

(** val with_children : dir -> dir list -> dir **)

let with_children d cs =
  { d_kind = d.d_kind; d_keyword = d.d_keyword; d_kw = d.d_kw; d_named =
    d.d_named; d_unnamed = d.d_unnamed; d_annot = d.d_annot; d_body =
    d.d_body; d_explicit = d.d_explicit; d_trace = d.d_trace; d_children =
    cs }

(** val named : dir -> pkey -> bytes **)

let named d k =
  match find (fun p -> pkey_eqb (fst p) k) d.d_named with
  | Some p -> let (_, v) = p in v
  | None -> []

(** val has_named : dir -> pkey -> bool **)

let has_named d k =
  existsb (fun p -> pkey_eqb (fst p) k) d.d_named

type cmsg = { m_fmt : string; m_args : bytes list; m_suffix : (n * z) list }

(** val mkMsg : string -> bytes list -> cmsg **)

let mkMsg f a =
  { m_fmt = f; m_args = a; m_suffix = [] }

type cerr = { e_msg : cmsg; e_file : n; e_index : z; e_trace : trace }

type cpanic =
| CPNilCurrentDirective
| CPEmptyIncludeName
| CPLexemeValue
| CPScanner of panic
| CPOther of string

type 'a cres =
| COk of 'a
| CErr of cerr
| CPanic of cpanic
| CFuel

(** val str : string -> bytes **)

let str =
  bytes_of_string

(** val msg1 : string -> cmsg **)

let msg1 s =
  mkMsg (String ((Ascii (true, false, true, false, false, true, false,
    false)), (String ((Ascii (true, true, false, false, true, true, true,
    false)), EmptyString)))) ((str s) :: [])

(** val is_trim_space : n -> bool **)

let is_trim_space c =
  (||)
    ((&&) (N.leb (Npos (XI (XO (XO XH)))) c)
      (N.leb c (Npos (XI (XO (XI XH))))))
    (N.eqb c (Npos (XO (XO (XO (XO (XO XH)))))))

(** val is_re_space : n -> bool **)

let is_re_space c =
  (||)
    ((||)
      ((||)
        ((||) (N.eqb c (Npos (XI (XO (XO XH)))))
          (N.eqb c (Npos (XO (XI (XO XH))))))
        (N.eqb c (Npos (XO (XO (XI XH))))))
      (N.eqb c (Npos (XI (XO (XI XH))))))
    (N.eqb c (Npos (XO (XO (XO (XO (XO XH)))))))

(** val drop_while : (n -> bool) -> bytes -> bytes **)

let rec drop_while f l = match l with
| [] -> []
| c :: r -> if f c then drop_while f r else l

(** val trim_space : bytes -> bytes **)

let trim_space l =
  rev (drop_while is_trim_space (rev (drop_while is_trim_space l)))

(** val collapse_spaces : bytes -> bool -> bytes **)

let rec collapse_spaces l in_run =
  match l with
  | [] -> []
  | c :: r ->
    if is_re_space c
    then if in_run
         then collapse_spaces r true
         else (Npos (XO (XO (XO (XO (XO XH)))))) :: (collapse_spaces r true)
    else c :: (collapse_spaces r false)

(** val annotation : bytes -> bytes **)

let annotation b =
  collapse_spaces (trim_space b) false

(** val is_schema_notation : bytes -> bool **)

let is_schema_notation s =
  (||)
    ((||)
      ((||)
        ((||)
          (beq s
            (str (String ((Ascii (false, true, false, true, false, true,
              true, false)), (String ((Ascii (true, true, false, false, true,
              true, true, false)), (String ((Ascii (true, false, false, true,
              false, true, true, false)), (String ((Ascii (true, true, true,
              false, false, true, true, false)), (String ((Ascii (false,
              false, false, true, false, true, true, false)), (String ((Ascii
              (false, false, true, false, true, true, true, false)),
              EmptyString)))))))))))))) (beq s []))
        (beq s
          (str (String ((Ascii (false, true, false, false, true, true, true,
            false)), (String ((Ascii (true, false, true, false, false, true,
            true, false)), (String ((Ascii (true, true, true, false, false,
            true, true, false)), (String ((Ascii (true, false, true, false,
            false, true, true, false)), (String ((Ascii (false, false, false,
            true, true, true, true, false)), EmptyString)))))))))))))
      (beq s
        (str (String ((Ascii (true, false, false, false, false, true, true,
          false)), (String ((Ascii (false, true, true, true, false, true,
          true, false)), (String ((Ascii (true, false, false, true, true,
          true, true, false)), EmptyString)))))))))
    (beq s
      (str (String ((Ascii (true, false, true, false, false, true, true,
        false)), (String ((Ascii (true, false, true, true, false, true, true,
        false)), (String ((Ascii (false, false, false, false, true, true,
        true, false)), (String ((Ascii (false, false, true, false, true,
        true, true, false)), (String ((Ascii (true, false, false, true, true,
        true, true, false)), EmptyString))))))))))))

(** val is_array_of_types : bytes -> bool **)

let is_array_of_types b = match b with
| [] -> false
| n0 :: rest ->
  (match n0 with
   | N0 -> false
   | Npos p ->
     (match p with
      | XI p0 ->
        (match p0 with
         | XI p1 ->
           (match p1 with
            | XO p2 ->
              (match p2 with
               | XI p3 ->
                 (match p3 with
                  | XI p4 ->
                    (match p4 with
                     | XO p5 ->
                       (match p5 with
                        | XH ->
                          (&&) (Nat.leb (S (S (S (S O)))) (length b))
                            (match rev rest with
                             | [] -> false
                             | n1 :: _ ->
                               (match n1 with
                                | N0 -> false
                                | Npos p6 ->
                                  (match p6 with
                                   | XI p7 ->
                                     (match p7 with
                                      | XO p8 ->
                                        (match p8 with
                                         | XI p9 ->
                                           (match p9 with
                                            | XI p10 ->
                                              (match p10 with
                                               | XI p11 ->
                                                 (match p11 with
                                                  | XO p12 ->
                                                    (match p12 with
                                                     | XH ->
                                                       is_user_type_name
                                                         (removelast rest)
                                                     | _ -> false)
                                                  | _ -> false)
                                               | _ -> false)
                                            | _ -> false)
                                         | _ -> false)
                                      | _ -> false)
                                   | _ -> false)))
                        | _ -> false)
                     | _ -> false)
                  | _ -> false)
               | _ -> false)
            | _ -> false)
         | _ -> false)
      | _ -> false))

type append_res =
| ASet of pkey * bytes
| AUnnamed of bytes
| ABad of bytes

(** val kind_in : n -> n list -> bool **)

let kind_in k l =
  existsb (N.eqb k) l

(** val append_parameter_kind : n -> bytes -> append_res **)

let append_parameter_kind kind raw =
  let b = unquote raw in
  if kind_in kind
       (dir_URL :: (dir_Get :: (dir_Post :: (dir_Put :: (dir_Patch :: (dir_Delete :: []))))))
  then ASet (KPath, b)
  else if kind_in kind
            (dir_Request :: (dir_HTTPResponseCode :: (dir_Body :: [])))
       then if is_schema_notation b
            then ASet (KSchemaNotation, b)
            else if is_array_of_types b
                 then ASet (KType, b)
                 else if is_user_type_name b then ASet (KType, b) else ABad b
       else if N.eqb kind dir_Type
            then if is_schema_notation b
                 then ASet (KSchemaNotation, b)
                 else if is_array_of_types b
                      then ASet (KName, b)
                      else if is_user_type_name b
                           then ASet (KName, b)
                           else ABad b
            else if N.eqb kind dir_Query
                 then if (||)
                           (beq b
                             (str (String ((Ascii (false, false, false, true,
                               false, true, true, false)), (String ((Ascii
                               (false, false, true, false, true, true, true,
                               false)), (String ((Ascii (true, false, true,
                               true, false, true, true, false)), (String
                               ((Ascii (false, false, true, true, false,
                               true, true, false)), (String ((Ascii (false,
                               true, true, false, false, false, true,
                               false)), (String ((Ascii (true, true, true,
                               true, false, true, true, false)), (String
                               ((Ascii (false, true, false, false, true,
                               true, true, false)), (String ((Ascii (true,
                               false, true, true, false, true, true, false)),
                               (String ((Ascii (true, false, true, false,
                               false, false, true, false)), (String ((Ascii
                               (false, true, true, true, false, true, true,
                               false)), (String ((Ascii (true, true, false,
                               false, false, true, true, false)), (String
                               ((Ascii (true, true, true, true, false, true,
                               true, false)), (String ((Ascii (false, false,
                               true, false, false, true, true, false)),
                               (String ((Ascii (true, false, true, false,
                               false, true, true, false)), (String ((Ascii
                               (false, false, true, false, false, true, true,
                               false)),
                               EmptyString))))))))))))))))))))))))))))))))
                           (beq b
                             (str (String ((Ascii (false, true, true, true,
                               false, true, true, false)), (String ((Ascii
                               (true, true, true, true, false, true, true,
                               false)), (String ((Ascii (false, true, true,
                               false, false, false, true, false)), (String
                               ((Ascii (true, true, true, true, false, true,
                               true, false)), (String ((Ascii (false, true,
                               false, false, true, true, true, false)),
                               (String ((Ascii (true, false, true, true,
                               false, true, true, false)), (String ((Ascii
                               (true, false, false, false, false, true, true,
                               false)), (String ((Ascii (false, false, true,
                               false, true, true, true, false)),
                               EmptyString))))))))))))))))))
                      then ASet (KFormat, b)
                      else ASet (KQueryExample, b)
                 else if kind_in kind (dir_Jsight :: (dir_Version :: []))
                      then ASet (KVersion, b)
                      else if N.eqb kind dir_Title
                           then ASet (KTitle, b)
                           else if N.eqb kind dir_BaseURL
                                then ASet (KPath, b)
                                else if kind_in kind
                                          (dir_Server :: (dir_Enum :: (dir_Macro :: (dir_Paste :: []))))
                                     then if is_user_type_name b
                                          then ASet (KName, b)
                                          else ABad b
                                     else if N.eqb kind dir_Protocol
                                          then ASet (KProtocolName, b)
                                          else if N.eqb kind dir_Method
                                               then ASet (KMethodName, b)
                                               else if N.eqb kind dir_TAG
                                                    then if is_user_type_name
                                                              b
                                                         then ASet (KTagName,
                                                                b)
                                                         else ABad b
                                                    else if N.eqb kind
                                                              dir_Tags
                                                         then if is_user_type_name
                                                                   b
                                                              then AUnnamed b
                                                              else ABad b
                                                         else if N.eqb kind
                                                                   dir_OperationID
                                                              then ASet
                                                                    (KOperationId,
                                                                    b)
                                                              else ABad b

(** val append_parameter : dir -> bytes -> (dir, cmsg) sum **)

let append_parameter d raw =
  match append_parameter_kind d.d_kind raw with
  | ASet (k, v) ->
    if has_named d k
    then Inr
           (mkMsg jerr_ParametersIsAlreadyDefined ((str (pkey_name k)) :: []))
    else Inl { d_kind = d.d_kind; d_keyword = d.d_keyword; d_kw = d.d_kw;
           d_named = (app d.d_named ((k, v) :: [])); d_unnamed = d.d_unnamed;
           d_annot = d.d_annot; d_body = d.d_body; d_explicit = d.d_explicit;
           d_trace = d.d_trace; d_children = d.d_children }
  | AUnnamed v ->
    Inl { d_kind = d.d_kind; d_keyword = d.d_keyword; d_kw = d.d_kw;
      d_named = d.d_named; d_unnamed = (app d.d_unnamed (v :: [])); d_annot =
      d.d_annot; d_body = d.d_body; d_explicit = d.d_explicit; d_trace =
      d.d_trace; d_children = d.d_children }
  | ABad v ->
    Inr
      (mkMsg (String ((Ascii (true, false, true, false, false, true, false,
        false)), (String ((Ascii (true, true, false, false, true, true, true,
        false)), (String ((Ascii (false, false, false, false, false, true,
        false, false)), (String ((Ascii (true, false, true, false, false,
        true, false, false)), (String ((Ascii (true, false, false, false,
        true, true, true, false)), EmptyString))))))))))
        ((str jerr_IncorrectParameter) :: (v :: [])))

type path = nat list

(** val node_at : dir list -> path -> dir option **)

let rec node_at f = function
| [] -> None
| i :: rest ->
  (match nth_error f i with
   | Some d ->
     (match rest with
      | [] -> Some d
      | _ :: _ -> node_at d.d_children rest)
   | None -> None)

(** val update_nth : 'a1 list -> nat -> ('a1 -> 'a1) -> 'a1 list **)

let rec update_nth l i f =
  match l with
  | [] -> []
  | x :: r -> (match i with
               | O -> (f x) :: r
               | S j -> x :: (update_nth r j f))

(** val append_child : dir list -> path -> dir -> dir list * nat **)

let rec append_child f p c =
  match p with
  | [] -> ((app f (c :: [])), (length f))
  | i :: rest ->
    (match nth_error f i with
     | Some d ->
       let (cs, idx) = append_child d.d_children rest c in
       ((update_nth f i (fun _ -> with_children d cs)), idx)
     | None -> (f, O))

(** val parent_path : path -> path option **)

let parent_path p =
  match removelast p with
  | [] -> None
  | n0 :: l -> Some (n0 :: l)

(** val dir_error : dir -> cmsg -> cerr **)

let dir_error d m =
  { e_msg = m; e_file = d.d_kw.co_file; e_index = d.d_kw.co_begin; e_trace =
    d.d_trace }

(** val kind_name : n -> bytes **)

let kind_name k =
  match nth_error keyword_bytes (N.to_nat k) with
  | Some b -> b
  | None -> []

(** val incorrect_context : dir -> cerr **)

let incorrect_context d =
  dir_error d
    (mkMsg (String ((Ascii (true, false, true, false, false, true, false,
      false)), (String ((Ascii (true, true, false, false, true, true, true,
      false)), (String ((Ascii (false, false, false, false, false, true,
      false, false)), (String ((Ascii (true, false, true, false, false, true,
      false, false)), (String ((Ascii (true, false, false, false, true, true,
      true, false)), EmptyString))))))))))
      ((str jerr_IncorrectDirectiveContext) :: ((kind_name d.d_kind) :: [])))

(** val incorrect_context_path : dir -> cerr **)

let incorrect_context_path d =
  dir_error d
    (mkMsg (String ((Ascii (true, false, true, false, false, true, false,
      false)), (String ((Ascii (true, true, false, false, true, true, true,
      false)), (String ((Ascii (false, false, false, false, false, true,
      false, false)), (String ((Ascii (true, false, true, false, false, true,
      false, false)), (String ((Ascii (true, false, false, false, true, true,
      true, false)), (String ((Ascii (false, false, false, false, false,
      true, false, false)), (String ((Ascii (true, true, true, false, true,
      true, true, false)), (String ((Ascii (true, false, false, true, false,
      true, true, false)), (String ((Ascii (false, false, true, false, true,
      true, true, false)), (String ((Ascii (false, false, false, true, false,
      true, true, false)), (String ((Ascii (false, false, false, false,
      false, true, false, false)), (String ((Ascii (false, false, true,
      false, true, true, true, false)), (String ((Ascii (false, false, false,
      true, false, true, true, false)), (String ((Ascii (true, false, true,
      false, false, true, true, false)), (String ((Ascii (false, false,
      false, false, false, true, false, false)), (String ((Ascii (false,
      true, false, false, false, true, false, false)), (String ((Ascii
      (false, false, false, false, true, false, true, false)), (String
      ((Ascii (true, false, false, false, false, true, true, false)), (String
      ((Ascii (false, false, true, false, true, true, true, false)), (String
      ((Ascii (false, false, false, true, false, true, true, false)), (String
      ((Ascii (false, true, false, false, false, true, false, false)),
      (String ((Ascii (false, false, false, false, false, true, false,
      false)), (String ((Ascii (false, false, false, false, true, true, true,
      false)), (String ((Ascii (true, false, false, false, false, true, true,
      false)), (String ((Ascii (false, true, false, false, true, true, true,
      false)), (String ((Ascii (true, false, false, false, false, true, true,
      false)), (String ((Ascii (true, false, true, true, false, true, true,
      false)), (String ((Ascii (true, false, true, false, false, true, true,
      false)), (String ((Ascii (false, false, true, false, true, true, true,
      false)), (String ((Ascii (true, false, true, false, false, true, true,
      false)), (String ((Ascii (false, true, false, false, true, true, true,
      false)),
      EmptyString))))))))))))))))))))))))))))))))))))))))))))))))))))))))))))))
      ((str jerr_IncorrectDirectiveContext) :: ((kind_name d.d_kind) :: [])))

(** val attach :
    nat -> dir list -> path option -> dir -> (dir list * path option) cres **)

let rec attach fuel f ctx d =
  match fuel with
  | O -> CFuel
  | S fuel' ->
    (match ctx with
     | Some p ->
       (match node_at f p with
        | Some cur ->
          if is_allowed_in cur.d_kind d.d_kind
          then if (&&)
                    ((&&) (is_http_request_method d.d_kind)
                      (negb (beq (named d KPath) [])))
                    (N.eqb cur.d_kind dir_URL)
               then if cur.d_explicit
                    then CErr (incorrect_context_path d)
                    else COk ((app f (d :: [])), (Some ((length f) :: [])))
               else let (f', idx) = append_child f p d in
                    COk (f', (Some (app p (idx :: []))))
          else if cur.d_explicit
               then CErr (incorrect_context d)
               else attach fuel' f (parent_path p) d
        | None ->
          CPanic (CPOther (String ((Ascii (true, true, false, false, false,
            true, true, false)), (String ((Ascii (true, true, true, true,
            false, true, true, false)), (String ((Ascii (false, true, true,
            true, false, true, true, false)), (String ((Ascii (false, false,
            true, false, true, true, true, false)), (String ((Ascii (true,
            false, true, false, false, true, true, false)), (String ((Ascii
            (false, false, false, true, true, true, true, false)), (String
            ((Ascii (false, false, true, false, true, true, true, false)),
            (String ((Ascii (false, false, false, false, false, true, false,
            false)), (String ((Ascii (false, false, false, false, true, true,
            true, false)), (String ((Ascii (true, false, false, false, false,
            true, true, false)), (String ((Ascii (false, false, true, false,
            true, true, true, false)), (String ((Ascii (false, false, false,
            true, false, true, true, false)), (String ((Ascii (false, false,
            false, false, false, true, false, false)), (String ((Ascii
            (false, false, true, false, false, true, true, false)), (String
            ((Ascii (true, true, true, true, false, true, true, false)),
            (String ((Ascii (true, false, true, false, false, true, true,
            false)), (String ((Ascii (true, true, false, false, true, true,
            true, false)), (String ((Ascii (false, false, false, false,
            false, true, false, false)), (String ((Ascii (false, true, true,
            true, false, true, true, false)), (String ((Ascii (true, true,
            true, true, false, true, true, false)), (String ((Ascii (false,
            false, true, false, true, true, true, false)), (String ((Ascii
            (false, false, false, false, false, true, false, false)), (String
            ((Ascii (true, false, true, false, false, true, true, false)),
            (String ((Ascii (false, false, false, true, true, true, true,
            false)), (String ((Ascii (true, false, false, true, false, true,
            true, false)), (String ((Ascii (true, true, false, false, true,
            true, true, false)), (String ((Ascii (false, false, true, false,
            true, true, true, false)),
            EmptyString))))))))))))))))))))))))))))))))))))))))))))))))))))))))
     | None ->
       if is_allowed_for_root d.d_kind
       then COk ((app f (d :: [])), (Some ((length f) :: [])))
       else CErr (incorrect_context d))

(** val attach_fuel : path option -> nat **)

let attach_fuel = function
| Some p -> S (S (length p))
| None -> S (S O)

(** val close_explicit :
    nat -> dir list -> path option -> path option option **)

let rec close_explicit fuel f ctx =
  match fuel with
  | O -> None
  | S fuel' ->
    (match ctx with
     | Some p ->
       (match node_at f p with
        | Some cur ->
          if cur.d_explicit
          then Some (parent_path p)
          else close_explicit fuel' f (parent_path p)
        | None -> None)
     | None -> None)

(** val has_unclosed : nat -> dir list -> path option -> bool **)

let rec has_unclosed fuel f ctx =
  match fuel with
  | O -> false
  | S fuel' ->
    (match ctx with
     | Some p ->
       (match node_at f p with
        | Some cur ->
          (||) cur.d_explicit (has_unclosed fuel' f (parent_path p))
        | None -> false)
     | None -> false)

type fsentry =
| FFile of bytes
| FDir

type fsmap = (bytes * fsentry) list

(** val fs_lookup : fsmap -> bytes -> fsentry option **)

let rec fs_lookup fs name =
  match fs with
  | [] -> None
  | p :: rest ->
    let (n0, e) = p in if beq n0 name then Some e else fs_lookup rest name

(** val segments : bytes -> bytes list **)

let rec segments = function
| [] -> [] :: []
| c :: r ->
  if N.eqb c (Npos (XI (XI (XI (XI (XO XH))))))
  then [] :: (segments r)
  else (match segments r with
        | [] -> (c :: []) :: []
        | seg :: rest -> (c :: seg) :: rest)

(** val dot : n list **)

let dot =
  (Npos (XO (XI (XI (XI (XO XH)))))) :: []

(** val dotdot : n list **)

let dotdot =
  (Npos (XO (XI (XI (XI (XO XH)))))) :: ((Npos (XO (XI (XI (XI (XO
    XH)))))) :: [])

(** val clean_segs : bytes list -> bytes list -> bytes list **)

let rec clean_segs segs acc =
  match segs with
  | [] -> rev acc
  | s :: rest ->
    if (||) (beq s []) (beq s dot)
    then clean_segs rest acc
    else if beq s dotdot
         then (match acc with
               | [] -> clean_segs rest (dotdot :: [])
               | a :: acc' ->
                 if beq a dotdot
                 then clean_segs rest (dotdot :: acc)
                 else clean_segs rest acc')
         else clean_segs rest (s :: acc)

(** val join_segs : bytes list -> bytes **)

let rec join_segs = function
| [] -> []
| s :: rest ->
  (match rest with
   | [] -> s
   | _ :: _ -> app s ((Npos (XI (XI (XI (XI (XO XH)))))) :: (join_segs rest)))

(** val join_dir : bytes -> bytes -> bytes **)

let join_dir includer name =
  let dirsegs = removelast (segments includer) in
  (match clean_segs (app dirsegs (segments name)) [] with
   | [] -> dot
   | b :: l -> join_segs (b :: l))

type stat_res =
| SFile of bytes
| SDir
| SMissing
| SNotDir

(** val proper_prefixes : bytes list -> bytes list -> bytes list list **)

let rec proper_prefixes segs acc =
  match segs with
  | [] -> []
  | s :: rest ->
    (match rest with
     | [] -> []
     | _ :: _ ->
       (app acc (s :: [])) :: (proper_prefixes rest (app acc (s :: []))))

(** val stat_path : fsmap -> bytes -> stat_res **)

let stat_path fs p =
  match fs_lookup fs p with
  | Some f -> (match f with
               | FFile c -> SFile c
               | FDir -> SDir)
  | None ->
    if existsb (fun pre ->
         match fs_lookup fs (join_segs pre) with
         | Some f -> (match f with
                      | FFile _ -> true
                      | FDir -> false)
         | None -> false) (proper_prefixes (segments p) [])
    then SNotDir
    else SMissing

(** val eval_icond : icond -> bytes -> bool option **)

let rec eval_icond c s =
  match c with
  | IFirstByte b -> (match s with
                     | [] -> None
                     | x :: _ -> Some (N.eqb x b))
  | IEquals w -> Some (beq s w)
  | IContains w -> Some (contains w s)
  | IHasPrefix w -> Some (is_prefix w s)
  | IHasSuffix w -> Some (is_suffix w s)
  | ISegmentIn ws ->
    Some (existsb (fun seg -> existsb (beq seg) ws) (segments s))
  | IOr (a, b) ->
    (match eval_icond a s with
     | Some b0 -> if b0 then Some true else eval_icond b s
     | None -> None)
  | IAnd (a, b) ->
    (match eval_icond a s with
     | Some b0 -> if b0 then eval_icond b s else Some false
     | None -> None)

(** val validate_include :
    (icond * string) list -> bytes -> string option option **)

let rec validate_include checks s =
  match checks with
  | [] -> Some None
  | p :: rest ->
    let (c, m) = p in
    (match eval_icond c s with
     | Some b -> if b then Some (Some m) else validate_include rest s
     | None -> None)

(** val newline_symbol_aux : bytes -> n option -> n **)

let rec newline_symbol_aux s found =
  match s with
  | [] -> (match found with
           | Some c -> c
           | None -> Npos (XO (XI (XO XH))))
  | c :: r ->
    if (||) (N.eqb c (Npos (XO (XI (XO XH)))))
         (N.eqb c (Npos (XI (XO (XI XH)))))
    then newline_symbol_aux r (Some c)
    else (match found with
          | Some x -> x
          | None -> newline_symbol_aux r None)

(** val newline_symbol : bytes -> n **)

let newline_symbol s =
  newline_symbol_aux s None

(** val count_lines : n -> bytes -> z -> z -> z * z **)

let rec count_lines nl s line col =
  match s with
  | [] -> (line, col)
  | c :: r ->
    if N.eqb c nl
    then count_lines nl r (Z.add line (Zpos XH)) Z0
    else count_lines nl r line (Z.add col (Zpos XH))

(** val line_and_column : bytes -> z -> z * z **)

let line_and_column content index =
  if (||) (Z.leb (Z.of_nat (length content)) index) (Z.ltb index Z0)
  then (Z0, Z0)
  else let (l, c) =
         count_lines (newline_symbol content)
           (firstn (Z.to_nat index) content) Z0 Z0
       in
       ((Z.add l (Zpos XH)), (Z.add c (Zpos XH)))

(** val bol_loop : bytes -> n -> nat -> nat -> nat option **)

let rec bol_loop content nl index i =
  match nth_error content i with
  | Some c ->
    if (&&) (N.eqb c nl) (negb (Nat.eqb i index))
    then Some (S i)
    else (match i with
          | O -> Some O
          | S j -> bol_loop content nl index j)
  | None -> None

(** val beginning_of_line : bytes -> nat -> nat option **)

let beginning_of_line content index =
  let n0 = length content in
  (match n0 with
   | O -> None
   | S m -> bol_loop content (newline_symbol content) index (Nat.min index m))

(** val eol_loop : n -> bytes -> nat -> nat **)

let rec eol_loop nl rest i =
  match rest with
  | [] -> i
  | c :: r -> if N.eqb c nl then i else eol_loop nl r (S i)

(** val end_of_line : bytes -> nat -> nat option **)

let end_of_line content index =
  let nl = newline_symbol content in
  let i = eol_loop nl (skipn index content) index in
  (match i with
   | O -> Some O
   | S j ->
     (match nth_error content j with
      | Some c ->
        if (||)
             ((&&) (N.eqb nl (Npos (XO (XI (XO XH)))))
               (N.eqb c (Npos (XI (XO (XI XH))))))
             ((&&) (N.eqb nl (Npos (XI (XO (XI XH)))))
               (N.eqb c (Npos (XO (XI (XO XH))))))
        then Some j
        else Some i
      | None -> None))

(** val is_blank : n -> bool **)

let is_blank c =
  (||)
    ((||)
      ((||) (N.eqb c (Npos (XO (XO (XO (XO (XO XH)))))))
        (N.eqb c (Npos (XI (XO (XO XH))))))
      (N.eqb c (Npos (XO (XI (XO XH)))))) (N.eqb c (Npos (XI (XO (XI XH)))))

(** val trim_spaces_from_left : bytes -> bytes **)

let trim_spaces_from_left b =
  match drop_while is_blank b with
  | [] -> b
  | n0 :: l -> n0 :: l

(** val dots : n list **)

let dots =
  (Npos (XO (XI (XI (XI (XO XH)))))) :: ((Npos (XO (XI (XI (XI (XO
    XH)))))) :: ((Npos (XO (XI (XI (XI (XO XH)))))) :: []))

(** val quote : bytes -> z -> bytes option **)

let quote content index =
  match content with
  | [] -> Some []
  | _ :: _ ->
    if Z.ltb index Z0
    then None
    else (match beginning_of_line content (Z.to_nat index) with
          | Some b ->
            (match end_of_line content (Z.to_nat index) with
             | Some e ->
               if Nat.ltb e b
               then None
               else if Nat.ltb (S (S (S (S (S (S (S (S (S (S (S (S (S (S (S
                         (S (S (S (S (S (S (S (S (S (S (S (S (S (S (S (S (S
                         (S (S (S (S (S (S (S (S (S (S (S (S (S (S (S (S (S
                         (S (S (S (S (S (S (S (S (S (S (S (S (S (S (S (S (S
                         (S (S (S (S (S (S (S (S (S (S (S (S (S (S (S (S (S
                         (S (S (S (S (S (S (S (S (S (S (S (S (S (S (S (S (S
                         (S (S (S (S (S (S (S (S (S (S (S (S (S (S (S (S (S
                         (S (S (S (S (S (S (S (S (S (S (S (S (S (S (S (S (S
                         (S (S (S (S (S (S (S (S (S (S (S (S (S (S (S (S (S
                         (S (S (S (S (S (S (S (S (S (S (S (S (S (S (S (S (S
                         (S (S (S (S (S (S (S (S (S (S (S (S (S (S (S (S (S
                         (S (S (S (S (S (S (S (S (S (S (S (S (S (S (S
                         O))))))))))))))))))))))))))))))))))))))))))))))))))))))))))))))))))))))))))))))))))))))))))))))))))))))))))))))))))))))))))))))))))))))))))))))))))))))))))))))))))))))))))))))))))))))))))))))))))))))))
                         (sub e b)
                    then Some
                           (app
                             (trim_spaces_from_left
                               (firstn (S (S (S (S (S (S (S (S (S (S (S (S (S
                                 (S (S (S (S (S (S (S (S (S (S (S (S (S (S (S
                                 (S (S (S (S (S (S (S (S (S (S (S (S (S (S (S
                                 (S (S (S (S (S (S (S (S (S (S (S (S (S (S (S
                                 (S (S (S (S (S (S (S (S (S (S (S (S (S (S (S
                                 (S (S (S (S (S (S (S (S (S (S (S (S (S (S (S
                                 (S (S (S (S (S (S (S (S (S (S (S (S (S (S (S
                                 (S (S (S (S (S (S (S (S (S (S (S (S (S (S (S
                                 (S (S (S (S (S (S (S (S (S (S (S (S (S (S (S
                                 (S (S (S (S (S (S (S (S (S (S (S (S (S (S (S
                                 (S (S (S (S (S (S (S (S (S (S (S (S (S (S (S
                                 (S (S (S (S (S (S (S (S (S (S (S (S (S (S (S
                                 (S (S (S (S (S (S (S (S (S (S (S (S (S (S (S
                                 (S (S (S (S
                                 O)))))))))))))))))))))))))))))))))))))))))))))))))))))))))))))))))))))))))))))))))))))))))))))))))))))))))))))))))))))))))))))))))))))))))))))))))))))))))))))))))))))))))))))))))))))))))))))))))))))
                                 (skipn b content))) dots)
                    else Some
                           (trim_spaces_from_left
                             (firstn (sub e b) (skipn b content)))
             | None -> None)
          | None -> None)

type sitem = { si_file : n; si_conf : conf; si_at : z }

type cstate = { cs_forest : dir list; cs_ctx : path option;
                cs_cur : dir option; cs_file : n; cs_conf : conf;
                cs_stack : sitem list; cs_tracers : (bytes * trace) list;
                cs_files : (bytes * bytes) list;
                cs_log : (string * bytes) list }

(** val file_name : cstate -> n -> bytes **)

let file_name st id =
  match nth_error st.cs_files (N.to_nat id) with
  | Some p -> let (n0, _) = p in n0
  | None -> []

(** val file_content : cstate -> n -> bytes **)

let file_content st id =
  match nth_error st.cs_files (N.to_nat id) with
  | Some p -> let (_, c) = p in c
  | None -> []

(** val live_trace : cstate -> trace **)

let live_trace st =
  map (fun it -> (it.si_file, it.si_at)) st.cs_stack

(** val with_live_trace : cstate -> cerr -> cerr **)

let with_live_trace st e =
  match e.e_trace with
  | [] ->
    { e_msg = e.e_msg; e_file = e.e_file; e_index = e.e_index; e_trace =
      (live_trace st) }
  | _ :: _ -> e

(** val scan_next :
    (string * stmt) list -> cond -> cond -> (bytes -> okind -> z -> olen_res)
    -> cstate -> (lexeme option * conf) res **)

let scan_next prog nl_cond ws_cond olen st =
  next prog nl_cond ws_cond (file_content st st.cs_file)
    (olen (file_name st st.cs_file)) st.cs_conf

(** val set_conf : cstate -> conf -> cstate **)

let set_conf st cf =
  { cs_forest = st.cs_forest; cs_ctx = st.cs_ctx; cs_cur = st.cs_cur;
    cs_file = st.cs_file; cs_conf = cf; cs_stack = st.cs_stack; cs_tracers =
    st.cs_tracers; cs_files = st.cs_files; cs_log = st.cs_log }

(** val set_cur_dir : cstate -> dir option -> cstate **)

let set_cur_dir st d =
  { cs_forest = st.cs_forest; cs_ctx = st.cs_ctx; cs_cur = d; cs_file =
    st.cs_file; cs_conf = st.cs_conf; cs_stack = st.cs_stack; cs_tracers =
    st.cs_tracers; cs_files = st.cs_files; cs_log = st.cs_log }

(** val set_tree : cstate -> dir list -> path option -> cstate **)

let set_tree st f ctx =
  { cs_forest = f; cs_ctx = ctx; cs_cur = st.cs_cur; cs_file = st.cs_file;
    cs_conf = st.cs_conf; cs_stack = st.cs_stack; cs_tracers = st.cs_tracers;
    cs_files = st.cs_files; cs_log = st.cs_log }

(** val add_log : cstate -> string -> bytes -> cstate **)

let add_log st what p =
  { cs_forest = st.cs_forest; cs_ctx = st.cs_ctx; cs_cur = st.cs_cur;
    cs_file = st.cs_file; cs_conf = st.cs_conf; cs_stack = st.cs_stack;
    cs_tracers = st.cs_tracers; cs_files = st.cs_files; cs_log =
    (app st.cs_log ((what, p) :: [])) }

(** val core_error : cstate -> cmsg -> z -> cerr **)

let core_error st m i =
  { e_msg = m; e_file = st.cs_file; e_index = i; e_trace = [] }

(** val scan_error : cstate -> serr -> cerr **)

let scan_error st = function
| EUnexpected (w, x, i, eof) ->
  { e_msg =
    (mkMsg
      (if eof
       then String ((Ascii (true, false, true, false, true, false, true,
              false)), (String ((Ascii (true, false, true, false, false,
              false, true, false)), (String ((Ascii (true, true, true, true,
              false, false, true, false)), (String ((Ascii (false, true,
              true, false, false, false, true, false)), EmptyString)))))))
       else String ((Ascii (true, false, true, false, true, false, true,
              false)), (String ((Ascii (true, true, false, false, false,
              false, true, false)), (String ((Ascii (false, false, false,
              true, false, false, true, false)), (String ((Ascii (true,
              false, false, false, false, false, true, false)), (String
              ((Ascii (false, true, false, false, true, false, true, false)),
              EmptyString)))))))))) ((str w) :: ((str x) :: []))); e_file =
    st.cs_file; e_index = i; e_trace = [] }
| EBasic (m, i) ->
  { e_msg = (msg1 m); e_file = st.cs_file; e_index = i; e_trace = [] }
| EOracle (mid, i) ->
  { e_msg =
    (mkMsg (String ((Ascii (true, true, true, true, false, false, true,
      false)), (String ((Ascii (false, true, false, false, true, false, true,
      false)), (String ((Ascii (true, false, false, false, false, false,
      true, false)), (String ((Ascii (true, true, false, false, false, false,
      true, false)), (String ((Ascii (false, false, true, true, false, false,
      true, false)), (String ((Ascii (true, false, true, false, false, false,
      true, false)), EmptyString)))))))))))) ((mid :: []) :: [])); e_file =
    st.cs_file; e_index = i; e_trace = [] }

(** val process_current : cstate -> cstate cres **)

let process_current st =
  match st.cs_cur with
  | Some d ->
    (match attach (attach_fuel st.cs_ctx) st.cs_forest st.cs_ctx d with
     | COk a -> let (f, ctx) = a in COk (set_cur_dir (set_tree st f ctx) None)
     | CErr e -> CErr e
     | CPanic p -> CPanic p
     | CFuel -> CFuel)
  | None -> COk st

(** val directive_tracer : cstate -> trace * cstate **)

let directive_tracer st =
  match st.cs_stack with
  | [] -> ([], st)
  | top :: _ ->
    let key = file_name st top.si_file in
    (match find (fun p -> beq (fst p) key) st.cs_tracers with
     | Some p -> let (_, t) = p in (t, st)
     | None ->
       let t = live_trace st in
       (t, { cs_forest = st.cs_forest; cs_ctx = st.cs_ctx; cs_cur =
       st.cs_cur; cs_file = st.cs_file; cs_conf = st.cs_conf; cs_stack =
       st.cs_stack; cs_tracers = (app st.cs_tracers ((key, t) :: []));
       cs_files = st.cs_files; cs_log = st.cs_log }))

(** val lex_coords : cstate -> lexeme -> coords **)

let lex_coords st l =
  { co_file = st.cs_file; co_begin = l.lb; co_end = l.le }

(** val lex_value : cstate -> lexeme -> bytes option **)

let lex_value st l =
  lexeme_value (file_content st st.cs_file) l

(** val jsight_kw : bytes **)

let jsight_kw =
  str (String ((Ascii (false, true, false, true, false, false, true, false)),
    (String ((Ascii (true, true, false, false, true, false, true, false)),
    (String ((Ascii (true, false, false, true, false, false, true, false)),
    (String ((Ascii (true, true, true, false, false, false, true, false)),
    (String ((Ascii (false, false, false, true, false, false, true, false)),
    (String ((Ascii (false, false, true, false, true, false, true, false)),
    EmptyString))))))))))))

(** val include_kw : bytes **)

let include_kw =
  str (String ((Ascii (true, false, false, true, false, false, true, false)),
    (String ((Ascii (false, true, true, true, false, false, true, false)),
    (String ((Ascii (true, true, false, false, false, false, true, false)),
    (String ((Ascii (false, false, true, true, false, false, true, false)),
    (String ((Ascii (true, false, true, false, true, false, true, false)),
    (String ((Ascii (false, false, true, false, false, false, true, false)),
    (String ((Ascii (true, false, true, false, false, false, true, false)),
    EmptyString))))))))))))))

(** val process_keyword : cstate -> lexeme -> cstate cres **)

let process_keyword st l =
  match process_current st with
  | COk st1 ->
    (match lex_value st1 l with
     | Some kw ->
       if (&&) (negb (match st1.cs_stack with
                      | [] -> true
                      | _ :: _ -> false)) (beq kw jsight_kw)
       then CErr
              (core_error st1
                (mkMsg (String ((Ascii (true, false, true, false, false,
                  true, false, false)), (String ((Ascii (true, true, false,
                  false, true, true, true, false)), (String ((Ascii (false,
                  false, false, false, false, true, false, false)), (String
                  ((Ascii (true, false, true, false, false, true, false,
                  false)), (String ((Ascii (true, false, false, false, true,
                  true, true, false)), EmptyString))))))))))
                  ((str jerr_IncludeDirectiveErr) :: (kw :: []))) l.lb)
       else (match new_directive_type kw with
             | Some k ->
               let (tr, st2) = directive_tracer st1 in
               COk
               (set_cur_dir st2 (Some { d_kind = k; d_keyword = kw; d_kw =
                 (lex_coords st2 l); d_named = []; d_unnamed = []; d_annot =
                 []; d_body = None; d_explicit = false; d_trace = tr;
                 d_children = [] }))
             | None ->
               CErr
                 (core_error st1
                   (mkMsg (String ((Ascii (true, false, true, false, false,
                     true, false, false)), (String ((Ascii (true, true,
                     false, false, true, true, true, false)), (String ((Ascii
                     (false, false, false, false, false, true, false,
                     false)), (String ((Ascii (true, false, true, false,
                     false, true, false, false)), (String ((Ascii (true,
                     false, false, false, true, true, true, false)),
                     EmptyString))))))))))
                     ((str jerr_UnknownDirective) :: (kw :: []))) l.lb))
     | None -> CPanic CPLexemeValue)
  | x -> x

(** val process_parameter : cstate -> lexeme -> cstate cres **)

let process_parameter st l =
  match st.cs_cur with
  | Some d ->
    (match lex_value st l with
     | Some v ->
       (match append_parameter d v with
        | Inl d' -> COk (set_cur_dir st (Some d'))
        | Inr m -> CErr (core_error st m l.lb))
     | None -> CPanic CPLexemeValue)
  | None -> CPanic CPNilCurrentDirective

(** val process_annotation : cstate -> lexeme -> cstate cres **)

let process_annotation st l =
  match st.cs_cur with
  | Some d ->
    (match lex_value st l with
     | Some v ->
       COk
         (set_cur_dir st (Some { d_kind = d.d_kind; d_keyword = d.d_keyword;
           d_kw = d.d_kw; d_named = d.d_named; d_unnamed = d.d_unnamed;
           d_annot = (annotation v); d_body = d.d_body; d_explicit =
           d.d_explicit; d_trace = d.d_trace; d_children = d.d_children }))
     | None -> CPanic CPLexemeValue)
  | None -> CPanic CPNilCurrentDirective

(** val process_body : cstate -> lexeme -> cstate cres **)

let process_body st l =
  match st.cs_cur with
  | Some d ->
    COk
      (set_cur_dir st (Some { d_kind = d.d_kind; d_keyword = d.d_keyword;
        d_kw = d.d_kw; d_named = d.d_named; d_unnamed = d.d_unnamed;
        d_annot = d.d_annot; d_body = (Some (lex_coords st l)); d_explicit =
        d.d_explicit; d_trace = d.d_trace; d_children = d.d_children }))
  | None -> CPanic CPNilCurrentDirective

(** val process_context_begin : cstate -> cstate cres **)

let process_context_begin st =
  match st.cs_cur with
  | Some d ->
    COk
      (set_cur_dir st (Some { d_kind = d.d_kind; d_keyword = d.d_keyword;
        d_kw = d.d_kw; d_named = d.d_named; d_unnamed = d.d_unnamed;
        d_annot = d.d_annot; d_body = d.d_body; d_explicit = true; d_trace =
        d.d_trace; d_children = d.d_children }))
  | None -> CPanic CPNilCurrentDirective

(** val process_context_end : cstate -> cstate cres **)

let process_context_end st =
  match process_current st with
  | COk st1 ->
    (match close_explicit (attach_fuel st1.cs_ctx) st1.cs_forest st1.cs_ctx with
     | Some ctx -> COk (set_tree st1 st1.cs_forest ctx)
     | None ->
       CErr
         (core_error st1 (msg1 jerr_ThereIsNoExplicitContextForClosure)
           (Z.sub st1.cs_conf.c_cur (Zpos XH))))
  | x -> x

(** val orphan_lexeme : cstate -> lexeme -> cstate cres option **)

let orphan_lexeme st l =
  match st.cs_cur with
  | Some _ -> None
  | None ->
    (match l.lk with
     | LKeyword -> None
     | LParameter ->
       (match lex_value st l with
        | Some v ->
          Some (CErr
            (core_error st
              (mkMsg (String ((Ascii (true, false, true, false, false, true,
                false, false)), (String ((Ascii (true, true, false, false,
                true, true, true, false)), (String ((Ascii (false, false,
                false, false, false, true, false, false)), (String ((Ascii
                (true, false, true, false, false, true, false, false)),
                (String ((Ascii (true, false, false, false, true, true, true,
                false)), EmptyString))))))))))
                ((str jerr_IncorrectParameter) :: ((unquote v) :: []))) l.lb))
        | None -> Some (CPanic CPLexemeValue))
     | LAnnotation ->
       Some (CErr
         (core_error st (msg1 jerr_AnnotationIsForbiddenForTheDirective) l.lb))
     | LContextClose -> None
     | _ ->
       Some (CErr (core_error st (msg1 jerr_IncorrectDirectiveContext) l.lb)))

(** val core_next : cstate -> lexeme -> cstate cres **)

let core_next st l =
  match orphan_lexeme st l with
  | Some r -> r
  | None ->
    (match l.lk with
     | LKeyword -> process_keyword st l
     | LParameter -> process_parameter st l
     | LAnnotation -> process_annotation st l
     | LContextOpen -> process_context_begin st
     | LContextClose -> process_context_end st
     | _ -> process_body st l)

(** val lexeme_error : cstate -> lexeme -> cmsg -> cerr **)

let lexeme_error st l m =
  { e_msg = m; e_file = st.cs_file; e_index = l.lb; e_trace = [] }

(** val fname : bytes **)

let fname =
  str (String ((Ascii (false, true, true, false, false, false, true, false)),
    (String ((Ascii (true, false, false, true, false, true, true, false)),
    (String ((Ascii (false, false, true, true, false, true, true, false)),
    (String ((Ascii (true, false, true, false, false, true, true, false)),
    (String ((Ascii (false, true, true, true, false, true, true, false)),
    (String ((Ascii (true, false, false, false, false, true, true, false)),
    (String ((Ascii (true, false, true, true, false, true, true, false)),
    (String ((Ascii (true, false, true, false, false, true, true, false)),
    EmptyString))))))))))))))))

(** val process_include :
    (string * stmt) list -> cond -> cond -> fsmap -> (bytes -> okind -> z ->
    olen_res) -> state -> cstate -> lexeme -> cstate cres * cstate **)

let process_include prog nl_cond ws_cond fs olen init_st st kw =
  match scan_next prog nl_cond ws_cond olen st with
  | ROk a ->
    let (ol, cf) = a in
    let st0 = set_conf st cf in
    let required = ((CErr
      (lexeme_error st0 kw
        (mkMsg (String ((Ascii (true, false, true, false, false, true, false,
          false)), (String ((Ascii (true, true, false, false, true, true,
          true, false)), (String ((Ascii (false, false, false, false, false,
          true, false, false)), (String ((Ascii (false, false, false, true,
          false, true, false, false)), (String ((Ascii (true, false, true,
          false, false, true, false, false)), (String ((Ascii (true, true,
          false, false, true, true, true, false)), (String ((Ascii (true,
          false, false, true, false, true, false, false)),
          EmptyString))))))))))))))
          ((str jerr_RequiredParameterNotSpecified) :: (fname :: []))))), st0)
    in
    (match ol with
     | Some pl ->
       (match pl.lk with
        | LParameter ->
          (match lex_value st0 pl with
           | Some raw ->
             let name = unquote raw in
             if beq name []
             then required
             else let bad = fun st1 why -> ((CErr
                    (lexeme_error st1 kw
                      (mkMsg (String ((Ascii (true, false, true, false,
                        false, true, false, false)), (String ((Ascii (true,
                        true, false, false, true, true, true, false)),
                        (String ((Ascii (false, false, false, false, false,
                        true, false, false)), (String ((Ascii (false, false,
                        false, true, false, true, false, false)), (String
                        ((Ascii (true, false, true, false, false, true,
                        false, false)), (String ((Ascii (true, true, false,
                        false, true, true, true, false)), (String ((Ascii
                        (true, false, false, true, false, true, false,
                        false)), (String ((Ascii (false, false, false, false,
                        false, true, false, false)), (String ((Ascii (true,
                        false, true, false, false, true, false, false)),
                        (String ((Ascii (true, false, false, false, true,
                        true, true, false)), (String ((Ascii (false, true,
                        false, true, true, true, false, false)), (String
                        ((Ascii (false, false, false, false, false, true,
                        false, false)), (String ((Ascii (true, false, true,
                        false, false, true, false, false)), (String ((Ascii
                        (true, true, false, false, true, true, true, false)),
                        EmptyString))))))))))))))))))))))))))))
                        ((str jerr_IncorrectParameter) :: (fname :: (name :: (why :: []))))))),
                    st1)
                  in
                  (match validate_include include_checks name with
                   | Some o ->
                     (match o with
                      | Some m -> bad st0 (str m)
                      | None ->
                        let p = join_dir (file_name st0 st0.cs_file) name in
                        let st1 =
                          add_log st0 (String ((Ascii (true, true, false,
                            false, true, true, true, false)), (String ((Ascii
                            (false, false, true, false, true, true, true,
                            false)), (String ((Ascii (true, false, false,
                            false, false, true, true, false)), (String
                            ((Ascii (false, false, true, false, true, true,
                            true, false)), EmptyString)))))))) p
                        in
                        (match stat_path fs p with
                         | SFile content ->
                           let st2 =
                             add_log st1 (String ((Ascii (false, true, false,
                               false, true, true, true, false)), (String
                               ((Ascii (true, false, true, false, false,
                               true, true, false)), (String ((Ascii (true,
                               false, false, false, false, true, true,
                               false)), (String ((Ascii (false, false, true,
                               false, false, true, true, false)),
                               EmptyString)))))))) p
                           in
                           let me = file_name st2 st2.cs_file in
                           if existsb (fun it ->
                                beq (file_name st2 it.si_file) me)
                                st2.cs_stack
                           then ((CErr
                                  (lexeme_error st2 kw
                                    (msg1 jerr_RecursionIsProhibited))), st2)
                           else let id = N.of_nat (length st2.cs_files) in
                                let st' = { cs_forest = st2.cs_forest;
                                  cs_ctx = st2.cs_ctx; cs_cur = st2.cs_cur;
                                  cs_file = id; cs_conf =
                                  (init_conf init_st); cs_stack =
                                  ({ si_file = st2.cs_file; si_conf =
                                  st2.cs_conf; si_at =
                                  kw.lb } :: st2.cs_stack); cs_tracers =
                                  st2.cs_tracers; cs_files =
                                  (app st2.cs_files ((p, content) :: []));
                                  cs_log = st2.cs_log }
                                in
                                ((COk st'), st')
                         | SDir ->
                           bad st1
                             (str (String ((Ascii (true, false, false, true,
                               false, true, true, false)), (String ((Ascii
                               (true, true, false, false, true, true, true,
                               false)), (String ((Ascii (false, false, false,
                               false, false, true, false, false)), (String
                               ((Ascii (true, false, false, false, false,
                               true, true, false)), (String ((Ascii (false,
                               false, false, false, false, true, false,
                               false)), (String ((Ascii (false, false, true,
                               false, false, true, true, false)), (String
                               ((Ascii (true, false, false, true, false,
                               true, true, false)), (String ((Ascii (false,
                               true, false, false, true, true, true, false)),
                               (String ((Ascii (true, false, true, false,
                               false, true, true, false)), (String ((Ascii
                               (true, true, false, false, false, true, true,
                               false)), (String ((Ascii (false, false, true,
                               false, true, true, true, false)), (String
                               ((Ascii (true, true, true, true, false, true,
                               true, false)), (String ((Ascii (false, true,
                               false, false, true, true, true, false)),
                               (String ((Ascii (true, false, false, true,
                               true, true, true, false)),
                               EmptyString)))))))))))))))))))))))))))))
                         | SMissing ->
                           bad st1
                             (str (String ((Ascii (false, false, true, false,
                               false, true, true, false)), (String ((Ascii
                               (true, true, true, true, false, true, true,
                               false)), (String ((Ascii (true, false, true,
                               false, false, true, true, false)), (String
                               ((Ascii (true, true, false, false, true, true,
                               true, false)), (String ((Ascii (false, false,
                               false, false, false, true, false, false)),
                               (String ((Ascii (false, true, true, true,
                               false, true, true, false)), (String ((Ascii
                               (true, true, true, true, false, true, true,
                               false)), (String ((Ascii (false, false, true,
                               false, true, true, true, false)), (String
                               ((Ascii (false, false, false, false, false,
                               true, false, false)), (String ((Ascii (true,
                               false, true, false, false, true, true,
                               false)), (String ((Ascii (false, false, false,
                               true, true, true, true, false)), (String
                               ((Ascii (true, false, false, true, false,
                               true, true, false)), (String ((Ascii (true,
                               true, false, false, true, true, true, false)),
                               (String ((Ascii (false, false, true, false,
                               true, true, true, false)),
                               EmptyString)))))))))))))))))))))))))))))
                         | SNotDir ->
                           bad st1
                             (app
                               (str (String ((Ascii (true, true, false,
                                 false, true, true, true, false)), (String
                                 ((Ascii (false, false, true, false, true,
                                 true, true, false)), (String ((Ascii (true,
                                 false, false, false, false, true, true,
                                 false)), (String ((Ascii (false, false,
                                 true, false, true, true, true, false)),
                                 (String ((Ascii (false, false, false, false,
                                 false, true, false, false)),
                                 EmptyString)))))))))))
                               (app p
                                 (str (String ((Ascii (false, true, false,
                                   true, true, true, false, false)), (String
                                   ((Ascii (false, false, false, false,
                                   false, true, false, false)), (String
                                   ((Ascii (false, true, true, true, false,
                                   true, true, false)), (String ((Ascii
                                   (true, true, true, true, false, true,
                                   true, false)), (String ((Ascii (false,
                                   false, true, false, true, true, true,
                                   false)), (String ((Ascii (false, false,
                                   false, false, false, true, false, false)),
                                   (String ((Ascii (true, false, false,
                                   false, false, true, true, false)), (String
                                   ((Ascii (false, false, false, false,
                                   false, true, false, false)), (String
                                   ((Ascii (false, false, true, false, false,
                                   true, true, false)), (String ((Ascii
                                   (true, false, false, true, false, true,
                                   true, false)), (String ((Ascii (false,
                                   true, false, false, true, true, true,
                                   false)), (String ((Ascii (true, false,
                                   true, false, false, true, true, false)),
                                   (String ((Ascii (true, true, false, false,
                                   false, true, true, false)), (String
                                   ((Ascii (false, false, true, false, true,
                                   true, true, false)), (String ((Ascii
                                   (true, true, true, true, false, true,
                                   true, false)), (String ((Ascii (false,
                                   true, false, false, true, true, true,
                                   false)), (String ((Ascii (true, false,
                                   false, true, true, true, true, false)),
                                   EmptyString)))))))))))))))))))))))))))))))))))))))
                   | None -> ((CPanic CPEmptyIncludeName), st0))
           | None -> ((CPanic CPLexemeValue), st0))
        | _ -> required)
     | None -> required)
  | RErr e -> ((CErr (scan_error st e)), st)
  | RPanic p -> ((CPanic (CPScanner p)), st)
  | RFuel -> (CFuel, st)

(** val is_include : cstate -> lexeme -> bool **)

let is_include st l =
  match l.lk with
  | LKeyword ->
    (match lex_value st l with
     | Some v -> beq v include_kw
     | None -> false)
  | _ -> false

(** val process_eof : cstate -> cstate cres **)

let process_eof st =
  match process_current st with
  | COk st1 ->
    if has_unclosed (attach_fuel st1.cs_ctx) st1.cs_forest st1.cs_ctx
    then CErr
           (core_error st1 (msg1 jerr_ContextNotClosed)
             (Z.sub st1.cs_conf.c_cur (Zpos XH)))
    else COk st1
  | x -> x

type sres =
| SDone of cstate
| SErr of cerr * cstate
| SPanic of cpanic * cstate
| SFuel

(** val lift : cstate -> cstate cres -> (cstate -> sres) -> sres **)

let lift st r k =
  match r with
  | COk st1 -> k st1
  | CErr e -> SErr ((with_live_trace st e), st)
  | CPanic p -> SPanic (p, st)
  | CFuel -> SFuel

(** val scan_project :
    (string * stmt) list -> cond -> cond -> fsmap -> (bytes -> okind -> z ->
    olen_res) -> state -> nat -> cstate -> sres **)

let rec scan_project prog nl_cond ws_cond fs olen init_st fuel st =
  match fuel with
  | O -> SFuel
  | S fuel' ->
    (match scan_next prog nl_cond ws_cond olen st with
     | ROk a ->
       let (o, cf) = a in
       (match o with
        | Some l ->
          let st0 = set_conf st cf in
          if is_include st0 l
          then let (c, st2) =
                 process_include prog nl_cond ws_cond fs olen init_st st0 l
               in
               (match c with
                | COk st1 ->
                  scan_project prog nl_cond ws_cond fs olen init_st fuel' st1
                | CErr e -> SErr ((with_live_trace st2 e), st2)
                | CPanic p -> SPanic (p, st2)
                | CFuel -> SFuel)
          else lift st0 (core_next st0 l)
                 (scan_project prog nl_cond ws_cond fs olen init_st fuel')
        | None ->
          let st0 = set_conf st cf in
          lift st0 (process_eof st0) (fun st1 ->
            match st1.cs_stack with
            | [] -> SDone st1
            | it :: rest ->
              scan_project prog nl_cond ws_cond fs olen init_st fuel'
                { cs_forest = st1.cs_forest; cs_ctx = st1.cs_ctx; cs_cur =
                st1.cs_cur; cs_file = it.si_file; cs_conf = it.si_conf;
                cs_stack = rest; cs_tracers = st1.cs_tracers; cs_files =
                st1.cs_files; cs_log = st1.cs_log }))
     | RErr e -> SErr ((with_live_trace st (scan_error st e)), st)
     | RPanic p -> SPanic ((CPScanner p), st)
     | RFuel -> SFuel)

(** val initial_cstate : state -> bytes -> bytes -> cstate **)

let initial_cstate init_st root_name root_content =
  { cs_forest = []; cs_ctx = None; cs_cur = None; cs_file = N0; cs_conf =
    (init_conf init_st); cs_stack = []; cs_tracers = []; cs_files =
    ((root_name, root_content) :: []); cs_log = (((String ((Ascii (false,
    true, false, false, true, true, true, false)), (String ((Ascii (true,
    false, true, false, false, true, true, false)), (String ((Ascii (true,
    false, false, false, false, true, true, false)), (String ((Ascii (false,
    false, true, false, false, true, true, false)), EmptyString)))))))),
    root_name) :: []) }

type macros = (bytes * dir) list

(** val macro_lookup : macros -> bytes -> dir option **)

let rec macro_lookup ms name =
  match ms with
  | [] -> None
  | p :: rest ->
    let (n0, d) = p in if beq n0 name then Some d else macro_lookup rest name

(** val required_name : dir -> cerr **)

let required_name d =
  dir_error d
    (mkMsg (String ((Ascii (true, false, true, false, false, true, false,
      false)), (String ((Ascii (true, true, false, false, true, true, true,
      false)), (String ((Ascii (false, false, false, false, false, true,
      false, false)), (String ((Ascii (false, false, false, true, false,
      true, false, false)), (String ((Ascii (true, false, true, false, false,
      true, false, false)), (String ((Ascii (true, true, false, false, true,
      true, true, false)), (String ((Ascii (true, false, false, true, false,
      true, false, false)), EmptyString))))))))))))))
      ((str jerr_RequiredParameterNotSpecified) :: ((str (String ((Ascii
                                                      (false, true, true,
                                                      true, false, false,
                                                      true, false)), (String
                                                      ((Ascii (true, false,
                                                      false, false, false,
                                                      true, true, false)),
                                                      (String ((Ascii (true,
                                                      false, true, true,
                                                      false, true, true,
                                                      false)), (String
                                                      ((Ascii (true, false,
                                                      true, false, false,
                                                      true, true, false)),
                                                      EmptyString))))))))) :: [])))

(** val add_macro : macros -> dir -> macros cres **)

let add_macro ms d =
  if negb (beq d.d_annot [])
  then CErr (dir_error d (msg1 jerr_AnnotationIsForbiddenForTheDirective))
  else let name = named d KName in
       if beq name []
       then CErr (required_name d)
       else (match d.d_children with
             | [] -> CErr (dir_error d (msg1 jerr_MacroIsEmpty))
             | _ :: _ ->
               (match macro_lookup ms name with
                | Some _ ->
                  CErr (dir_error d (mkMsg jerr_DuplicateNames (name :: [])))
                | None -> COk (app ms ((name, d) :: []))))

(** val collect_macro :
    dir list -> dir list -> macros -> (dir list * macros) cres **)

let rec collect_macro roots kept ms =
  match roots with
  | [] -> COk ((rev kept), ms)
  | d :: rest ->
    if N.eqb d.d_kind dir_Macro
    then (match add_macro ms d with
          | COk ms' -> collect_macro rest kept ms'
          | CErr e -> CErr e
          | CPanic p -> CPanic p
          | CFuel -> CFuel)
    else collect_macro rest (d :: kept) ms

(** val paste_nodes : nat -> dir -> dir list **)

let rec paste_nodes fuel d =
  match fuel with
  | O -> []
  | S fuel' ->
    if N.eqb d.d_kind dir_Paste
    then d :: []
    else flat_map (paste_nodes fuel') d.d_children

(** val macro_pastes : nat -> dir -> dir list **)

let macro_pastes fuel m =
  flat_map (paste_nodes fuel) m.d_children

(** val reaches : nat -> nat -> macros -> bytes -> bytes -> bool **)

let rec reaches fuel depth ms from target =
  match fuel with
  | O -> false
  | S fuel' ->
    (match macro_lookup ms from with
     | Some m ->
       existsb (fun p ->
         let n0 = named p KName in
         (||) (beq n0 target)
           ((&&) (negb (beq n0 [])) (reaches fuel' depth ms n0 target)))
         (macro_pastes depth m)
     | None -> false)

(** val paste_verdict :
    nat -> nat -> macros -> bytes -> dir -> cerr option **)

let paste_verdict fuel depth ms name p =
  let n0 = named p KName in
  if beq n0 []
  then Some (required_name p)
  else if beq n0 name
       then Some (dir_error p (msg1 jerr_RecursionIsProhibited))
       else if reaches fuel depth ms n0 name
            then Some (dir_error p (msg1 jerr_RecursionIsProhibited))
            else None

(** val first_some : ('a1 -> 'a2 option) -> 'a1 list -> 'a2 option **)

let rec first_some f = function
| [] -> None
| x :: r -> (match f x with
             | Some y -> Some y
             | None -> first_some f r)

(** val find_paste : nat -> nat -> macros -> bytes -> dir -> cerr option **)

let find_paste fuel depth ms name m =
  first_some (paste_verdict fuel depth ms name) (macro_pastes depth m)

(** val check_recursion : nat -> macros -> cerr option **)

let check_recursion depth ms =
  first_some (fun p -> find_paste (S (length ms)) depth ms (fst p) (snd p)) ms

type xstate = { x_forest : dir list; x_ctx : path option; x_enums : bytes list }

(** val wrap_error : dir -> cerr -> cerr **)

let wrap_error d e =
  let m = e.e_msg in
  let extra =
    match e.e_trace with
    | [] -> []
    | p :: l -> (e.e_file, e.e_index) :: (p :: l)
  in
  dir_error d { m_fmt = m.m_fmt; m_args = m.m_args; m_suffix =
    (app m.m_suffix extra) }

(** val build_rule :
    (coords -> (n * z) option) -> xstate -> dir -> xstate cres **)

let build_rule enum_check xs d =
  if negb (N.eqb d.d_kind dir_Enum)
  then COk xs
  else (match d.d_body with
        | Some body ->
          if Z.eqb body.co_end Z0
          then COk xs
          else (match enum_check body with
                | Some p ->
                  let (mid, idx) = p in
                  CErr { e_msg =
                  (mkMsg (String ((Ascii (true, true, true, true, false,
                    false, true, false)), (String ((Ascii (false, true,
                    false, false, true, false, true, false)), (String ((Ascii
                    (true, false, false, false, false, false, true, false)),
                    (String ((Ascii (true, true, false, false, false, false,
                    true, false)), (String ((Ascii (false, false, true, true,
                    false, false, true, false)), (String ((Ascii (true,
                    false, true, false, false, false, true, false)),
                    EmptyString)))))))))))) ((mid :: []) :: [])); e_file =
                  body.co_file; e_index = (Z.add body.co_begin idx);
                  e_trace = d.d_trace }
                | None ->
                  let name = named d KName in
                  if existsb (beq name) xs.x_enums
                  then CErr
                         (dir_error d
                           (mkMsg jerr_DuplicateNames (name :: [])))
                  else COk { x_forest = xs.x_forest; x_ctx = xs.x_ctx;
                         x_enums = (app xs.x_enums (name :: [])) })
        | None -> COk xs)

(** val build_rules :
    (coords -> (n * z) option) -> xstate -> dir list -> xstate cres **)

let rec build_rules enum_check xs = function
| [] -> COk xs
| d :: rest ->
  (match build_rule enum_check xs d with
   | COk xs' -> build_rules enum_check xs' rest
   | x -> x)

(** val expand_dir :
    (coords -> (n * z) option) -> macros -> nat -> xstate -> dir -> xstate
    cres **)

let rec expand_dir enum_check ms fuel xs d =
  match fuel with
  | O -> CFuel
  | S fuel' ->
    let expand_list0 =
      let rec go xs0 = function
      | [] -> COk xs0
      | c :: r ->
        (match expand_dir enum_check ms fuel' xs0 c with
         | COk xs' -> go xs' r
         | x -> x)
      in go
    in
    if N.eqb d.d_kind dir_Paste
    then let inner =
           if negb (beq d.d_annot [])
           then CErr
                  (dir_error d
                    (msg1 jerr_AnnotationIsForbiddenForTheDirective))
           else let name = named d KName in
                if beq name []
                then CErr (required_name d)
                else (match macro_lookup ms name with
                      | Some m ->
                        (match build_rules enum_check xs m.d_children with
                         | COk xs1 -> expand_list0 xs1 m.d_children
                         | x -> x)
                      | None -> CErr (dir_error d (msg1 jerr_MacroNotFound)))
         in
         (match inner with
          | CErr e -> CErr (wrap_error d e)
          | _ -> inner)
    else let dd = with_children d [] in
         (match attach (attach_fuel xs.x_ctx) xs.x_forest xs.x_ctx dd with
          | COk a ->
            let (f, ctx) = a in
            let restore =
              match ctx with
              | Some p -> parent_path p
              | None -> None
            in
            (match expand_list0 { x_forest = f; x_ctx = ctx; x_enums =
                     xs.x_enums } d.d_children with
             | COk xs2 ->
               if d.d_explicit
               then COk { x_forest = xs2.x_forest; x_ctx = restore; x_enums =
                      xs2.x_enums }
               else COk xs2
             | x -> x)
          | CErr e -> CErr e
          | CPanic p -> CPanic p
          | CFuel -> CFuel)

(** val expand_list :
    (coords -> (n * z) option) -> macros -> nat -> xstate -> dir list ->
    xstate cres **)

let rec expand_list enum_check ms fuel xs = function
| [] -> COk xs
| c :: r ->
  (match expand_dir enum_check ms fuel xs c with
   | COk xs' -> expand_list enum_check ms fuel xs' r
   | x -> x)

type expanded = { ex_roots : dir list; ex_macros : macros;
                  ex_forest : dir list; ex_enums : bytes list }

type xres =
| XOk of expanded
| XErr of cerr
| XErrOneOf of cerr list
| XPanic of cpanic
| XFuel

(** val compile_macros :
    (coords -> (n * z) option) -> nat -> dir list -> xres **)

let compile_macros enum_check fuel roots =
  match collect_macro roots [] [] with
  | COk a ->
    let (roots', ms) = a in
    (match check_recursion fuel ms with
     | Some e -> XErr e
     | None ->
       (match expand_list enum_check ms fuel { x_forest = []; x_ctx = None;
                x_enums = [] } roots' with
        | COk xs ->
          (match build_rules enum_check xs roots' with
           | COk xs' ->
             XOk { ex_roots = roots'; ex_macros = ms; ex_forest =
               xs'.x_forest; ex_enums = xs'.x_enums }
           | CErr e -> XErr e
           | CPanic p -> XPanic p
           | CFuel -> XFuel)
        | CErr e -> XErr e
        | CPanic p -> XPanic p
        | CFuel -> XFuel))
  | CErr e -> XErr e
  | CPanic p -> XPanic p
  | CFuel -> XFuel

type otable = (((bytes * okind) * z) * olen_res) list

type etable = (((bytes * z) * z) * (n * z)) list

(** val olen_lookup : otable -> bytes -> okind -> z -> olen_res **)

let rec olen_lookup t name k pos =
  match t with
  | [] -> OLenErr (missing_oracle_id, Z0)
  | p :: rest ->
    let (p0, r) = p in
    let (p1, p') = p0 in
    let (n0, k') = p1 in
    if (&&) ((&&) (beq n0 name) (okind_eqb k k')) (Z.eqb pos p')
    then r
    else olen_lookup rest name k pos

type rloc = { rl_name : bytes; rl_index : z; rl_line : z; rl_col : z;
              rl_quote : bytes option }

type rerr = { re_fmt : string; re_args : bytes list; re_suffix : rloc list;
              re_loc : rloc; re_trace : rloc list }

(** val render_loc : (bytes * bytes) list -> n -> z -> rloc **)

let render_loc files f i =
  match nth_error files (N.to_nat f) with
  | Some p ->
    let (n0, c) = p in
    let (l, col) = line_and_column c i in
    { rl_name = n0; rl_index = i; rl_line = l; rl_col = col; rl_quote =
    (quote c i) }
  | None ->
    { rl_name = []; rl_index = i; rl_line = Z0; rl_col = Z0; rl_quote = None }

(** val render_err : (bytes * bytes) list -> cerr -> rerr **)

let render_err files e =
  { re_fmt = e.e_msg.m_fmt; re_args = e.e_msg.m_args; re_suffix =
    (map (fun p -> render_loc files (fst p) (snd p)) e.e_msg.m_suffix);
    re_loc = (render_loc files e.e_file e.e_index); re_trace =
    (map (fun p -> render_loc files (fst p) (snd p)) e.e_trace) }

type rdir = { rd_kind : n; rd_keyword : bytes; rd_file : bytes; rd_begin : 
              z; rd_end : z; rd_named : (string * bytes) list;
              rd_unnamed : bytes list; rd_annot : bytes;
              rd_body : ((bytes * z) * z) option; rd_explicit : bool;
              rd_trace : rloc list; rd_children : rdir list }

(** val fname_of : (bytes * bytes) list -> n -> bytes **)

let fname_of files f =
  match nth_error files (N.to_nat f) with
  | Some p -> let (n0, _) = p in n0
  | None -> []

(** val render_dir : nat -> (bytes * bytes) list -> dir -> rdir **)

let rec render_dir fuel files d =
  { rd_kind = d.d_kind; rd_keyword = d.d_keyword; rd_file =
    (fname_of files d.d_kw.co_file); rd_begin = d.d_kw.co_begin; rd_end =
    d.d_kw.co_end; rd_named =
    (map (fun p -> ((pkey_name (fst p)), (snd p))) d.d_named); rd_unnamed =
    d.d_unnamed; rd_annot = d.d_annot; rd_body =
    (match d.d_body with
     | Some c -> Some (((fname_of files c.co_file), c.co_begin), c.co_end)
     | None -> None); rd_explicit = d.d_explicit; rd_trace =
    (map (fun p -> render_loc files (fst p) (snd p)) d.d_trace);
    rd_children =
    (match fuel with
     | O -> []
     | S f -> map (render_dir f files) d.d_children) }

type tree_result =
| TScanErr of rerr * (string * bytes) list
| TScanPanic of cpanic * (string * bytes) list
| TFuel
| TScanned of rdir list * (string * bytes) list * tree_phase2
and tree_phase2 =
| T2Ok of rdir list * bytes list * rdir list * bytes list
| T2Err of rerr
| T2ErrOneOf of rerr list
| T2Panic of cpanic
| T2Fuel

(** val render_depth : nat **)

let render_depth =
  S (S (S (S (S (S (S (S (S (S (S (S (S (S (S (S (S (S (S (S (S (S (S (S (S
    (S (S (S (S (S (S (S (S (S (S (S (S (S (S (S (S (S (S (S (S (S (S (S (S
    (S (S (S (S (S (S (S (S (S (S (S (S (S (S (S
    O)))))))))))))))))))))))))))))))))))))))))))))))))))))))))))))))

(** val tree_case :
    fsmap -> bytes -> otable -> etable -> nat -> tree_result **)

let tree_case fs root ot et fuel =
  match fs_lookup fs root with
  | Some f ->
    (match f with
     | FFile content ->
       let st0 = initial_cstate initial_state root content in
       (match scan_project prog_table is_newline_cond is_whitespace_cond fs
                (olen_lookup ot) initial_state fuel st0 with
        | SDone st ->
          let files = st.cs_files in
          let echeck = fun c ->
            let name = fname_of files c.co_file in
            (match find (fun r ->
                     let (y, _) = r in
                     let (y1, e) = y in
                     let (n0, b) = y1 in
                     (&&) ((&&) (beq n0 name) (Z.eqb b c.co_begin))
                       (Z.eqb e c.co_end)) et with
             | Some p -> let (_, v) = p in Some v
             | None -> None)
          in
          TScanned ((map (render_dir render_depth files) st.cs_forest),
          st.cs_log,
          (match compile_macros echeck
                   (Nat.min fuel (S (S (S (S (S (S (S (S (S (S (S (S (S (S (S
                     (S (S (S (S (S (S (S (S (S (S (S (S (S (S (S (S (S (S (S
                     (S (S (S (S (S (S (S (S (S (S (S (S (S (S (S (S (S (S (S
                     (S (S (S (S (S (S (S (S (S (S (S (S (S (S (S (S (S (S (S
                     (S (S (S (S (S (S (S (S (S (S (S (S (S (S (S (S (S (S (S
                     (S (S (S (S (S (S (S (S (S (S (S (S (S (S (S (S (S (S (S
                     (S (S (S (S (S (S (S (S (S (S (S (S (S (S (S (S (S (S (S
                     (S (S (S (S (S (S (S (S (S (S (S (S (S (S (S (S (S (S (S
                     (S (S (S (S (S (S (S (S (S (S (S (S (S (S (S (S (S (S (S
                     (S (S (S (S (S (S (S (S (S (S (S (S (S (S (S (S (S (S (S
                     (S (S (S (S (S (S (S (S (S (S (S (S (S (S (S (S (S (S (S
                     (S (S (S (S (S (S (S (S (S (S (S (S (S (S (S (S (S (S (S
                     (S (S (S (S (S (S (S (S (S (S (S (S (S (S (S (S (S (S (S
                     (S (S (S (S (S (S (S (S (S (S (S (S (S (S (S (S (S (S (S
                     (S (S (S (S (S (S (S (S (S (S (S (S (S (S (S (S (S (S (S
                     (S (S (S (S (S (S (S (S (S (S (S (S (S (S (S (S (S (S (S
                     (S (S (S (S (S (S (S (S (S (S (S (S (S (S (S (S (S (S (S
                     (S (S (S (S (S (S (S (S (S (S (S (S (S (S (S (S (S (S (S
                     (S (S (S (S (S (S (S (S (S (S (S (S (S (S (S (S (S (S (S
                     (S (S (S (S (S (S (S (S (S (S (S (S (S (S (S (S (S (S (S
                     (S (S (S (S (S (S (S (S (S (S (S (S (S (S (S (S (S (S (S
                     (S (S (S (S (S (S (S (S (S (S (S (S (S (S (S (S (S (S (S
                     (S (S (S (S (S (S (S (S (S (S (S (S (S (S (S (S (S (S (S
                     (S (S (S (S (S (S (S (S (S (S (S (S (S (S (S (S (S (S (S
                     (S (S (S (S (S (S (S (S (S (S (S (S (S (S (S (S (S (S (S
                     (S (S (S (S (S (S (S (S (S (S (S (S (S (S (S (S (S (S (S
                     (S (S (S (S (S (S (S (S (S (S (S (S (S (S (S (S (S (S (S
                     (S (S (S (S (S (S (S (S (S (S (S (S (S (S (S (S (S (S (S
                     (S (S (S (S (S (S (S (S (S (S (S (S (S (S (S (S (S (S (S
                     (S (S (S (S (S (S (S (S (S (S (S (S (S (S (S (S (S (S (S
                     (S (S (S (S (S (S (S (S (S (S (S (S (S (S (S (S (S (S (S
                     (S (S (S (S (S (S (S (S (S (S (S (S (S (S (S
                     O)))))))))))))))))))))))))))))))))))))))))))))))))))))))))))))))))))))))))))))))))))))))))))))))))))))))))))))))))))))))))))))))))))))))))))))))))))))))))))))))))))))))))))))))))))))))))))))))))))))))))))))))))))))))))))))))))))))))))))))))))))))))))))))))))))))))))))))))))))))))))))))))))))))))))))))))))))))))))))))))))))))))))))))))))))))))))))))))))))))))))))))))))))))))))))))))))))))))))))))))))))))))))))))))))))))))))))))))))))))))))))))))))))))))))))))))))))))))))))))))))))))))))))))))))))))))))))))))))))))))))))))))))))))))))))))))))))))))))))))))))))))))))))))))))))))))))))))))))))))))))
                   st.cs_forest with
           | XOk ex ->
             T2Ok ((map (render_dir render_depth files) ex.ex_roots),
               (map fst ex.ex_macros),
               (map (render_dir render_depth files) ex.ex_forest),
               ex.ex_enums)
           | XErr e -> T2Err (render_err files e)
           | XErrOneOf es -> T2ErrOneOf (map (render_err files) es)
           | XPanic p -> T2Panic p
           | XFuel -> T2Fuel))
        | SErr (e, st) -> TScanErr ((render_err st.cs_files e), st.cs_log)
        | SPanic (p, st) -> TScanPanic (p, st.cs_log)
        | SFuel -> TFuel)
     | FDir -> TFuel)
  | None -> TFuel
